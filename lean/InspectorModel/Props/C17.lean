/-
Props/C17.lean — property theorems for C17 (the strings inspector behaves like the sequence it wraps).

For the repaired runtime model (`LibCfg.fixed`), every sequence value, every argument form, every path,
operator, operand and source: the outcome of Get / Compare / Length / Capacity / Set / DeepEqual / Loop /
CopyTo / Reset is accepted by the independent specification (Spec/StringsSpec.lean), with exactly the
pairing and the per-form guards the driver applies (Driver/LibOps.lean `stringsOp*`; the `…Acc` functions
below are those guards, copied). The model of the current tree is rejected on the classes
`strings-set-empty-noop`, `strings-empty-unequal`, `strings-cmp-out-of-range`, `strings-nil-ptr-panics`
(`repo_not_correct_*`).
-/
import InspectorModel.Proofs.C17
namespace Inspector.C17

/-! ### The driver's acceptance guards (Driver/LibOps.lean, `acc` of each `stringsOp*` handler) -/

def getAcc (isB : Bool) (f : Form) (v : Val) (p : List Seg) (o : GetOut) : Bool :=
  match f with
  | .val | .ptr => stringsGetAccepts isB v p o
  | .nilPtr => true
  | _ => o == .none

def cmpAcc (f : Form) (v : Val) (p : List Seg) (op : Op) (right : Seg) (o : CmpOut) : Bool :=
  match f with
  | .val | .ptr => stringsCmpAccepts v p op right o
  | .nilPtr => true
  | _ => o == .untouched

def lcAcc (isCap isB : Bool) (f : Form) (v : Val) (p : List Seg) (o : LcOut) : Bool :=
  match f with
  | .val | .ptr => stringsLcAccepts isCap isB v p o
  | .nilPtr => true
  | _ => o == .untouched || o == .unsupported

/-- For the forms `sp` refuses the driver demands the unchanged root; `SetOut` has no `BEq`, so that arm is
the separate theorem `set_refused`. -/
def setAcc (isB : Bool) (f : Form) (v : Val) (p : List Seg) (src : Src) (o : SetOut) : Bool :=
  match f with
  | .val | .ptr => stringsSetAccepts isB v p src o
  | _ => true

def isSeqForm (f : Form) : Bool := f == .val || f == .ptr

def deqAcc (fl fr : Form) (a b : Val) (o : DeqOut × DeqOut) : Bool :=
  if isSeqForm fl && isSeqForm fr then stringsDeqAccepts a b o.1 && stringsDeqAccepts b a o.2
  else if fl == .nilPtr || fr == .nilPtr then true
  else o.1 == .f && o.2 == .f

/-! ### Get -/

theorem get_correct (isB : Bool) (f : Form) (v : Val) (p : List Seg) :
    getAcc isB f v p (stringsGet LibCfg.fixed isB f v p) = true := by
  unfold getAcc stringsGet
  match p with
  | [] => cases f <;> rfl
  | _ :: _ :: _ => cases f <;> rfl
  | [s] =>
    have key : stringsGetAccepts isB v [s]
        (match atoiSeg s with
         | none => .err
         | some idx =>
           if inRangeIdx idx (seqElems v).length then
             (match nth? (seqElems v) idx.toNat with
              | some e => .some (if isB then "Y" else "string") e
              | none => .none)
           else .none) = true := by
      unfold stringsGetAccepts
      simp only [seqAddr_eq]
      cases atoiSeg s with
      | none => rfl
      | some idx =>
        simp only []
        cases hr : inRangeIdx idx (seqElems v).length
        · simp only [Bool.false_eq_true, if_false]; rfl
        · simp only [if_true]
          cases nth? (seqElems v) idx.toNat with
          | none => rfl
          | some e => exact GetOut.beq_refl _
    cases f <;> first | exact key | rfl

/-- The repaired model never panics on Get. -/
theorem get_no_panic (isB : Bool) (f : Form) (v : Val) (p : List Seg) :
    (stringsGet LibCfg.fixed isB f v p == .panic) = false := by
  unfold stringsGet
  match p with
  | [] => rfl
  | _ :: _ :: _ => rfl
  | [s] =>
    cases f <;> simp only [spOf, LibCfg.fixed, Bool.false_eq_true, if_false] <;> try rfl
    all_goals
      cases atoiSeg s with
      | none => rfl
      | some idx =>
        simp only []
        cases inRangeIdx idx (seqElems v).length
        · rfl
        · simp only [if_true]; cases nth? (seqElems v) idx.toNat <;> rfl

/-! ### Compare -/

theorem cmp_correct (f : Form) (v : Val) (p : List Seg) (op : Op) (right : Seg) :
    cmpAcc f v p op right (stringsCmp LibCfg.fixed f v p op right) = true := by
  unfold cmpAcc stringsCmp
  match p with
  | [] => cases f <;> rfl
  | _ :: _ :: _ => cases f <;> rfl
  | [s] =>
    have key : stringsCmpAccepts v [s] op right
        (match atoiSeg s with
         | none => .err
         | some idx =>
           if idx < 0 then .untouched
           else if inRangeIdx idx (seqElems v).length then
             (match nth? (seqElems v) idx.toNat with
              | some e => strCmpSix op (elemText e) right.text
              | none => .untouched)
           else if LibCfg.fixed.stringsCmpOutOfRange then strCmpSix op [] right.text else .untouched) = true := by
      unfold stringsCmpAccepts
      simp only [seqAddr_eq]
      cases atoiSeg s with
      | none => rfl
      | some idx =>
        simp only []
        cases hr : inRangeIdx idx (seqElems v).length
        · simp only [Bool.false_eq_true, if_false, LibCfg.fixed]
          by_cases hn : idx < 0
          · rw [if_pos hn]; rfl
          · rw [if_neg hn]; rfl
        · have hn : ¬ idx < 0 := by have := (inRangeIdx_iff _ _).1 hr; omega
          simp only [if_true]
          rw [if_neg hn]
          cases nth? (seqElems v) idx.toNat with
          | none => rfl
          | some e => exact strCmpSix_native op (elemText e) right.text
    cases f <;> first | exact key | rfl

/-- The repaired model never panics on Compare. -/
theorem cmp_no_panic (f : Form) (v : Val) (p : List Seg) (op : Op) (right : Seg) :
    stringsCmp LibCfg.fixed f v p op right ≠ .panic := by
  have hsix : ∀ l r, strCmpSix op l r ≠ .panic := by
    intro l r
    unfold strCmpSix
    repeat' split
    all_goals (intro h; cases h)
  unfold stringsCmp
  match p with
  | [] => intro h; cases h
  | _ :: _ :: _ => intro h; cases h
  | [s] =>
    cases f <;> simp only [spOf, LibCfg.fixed, Bool.false_eq_true, if_false] <;> try (intro h; cases h)
    all_goals
      cases atoiSeg s with
      | none => intro h; cases h
      | some idx =>
        simp only []
        repeat' split
        all_goals first | exact hsix _ _ | (intro h; cases h)

/-! ### Length / Capacity -/

theorem lc_correct (isCap isB : Bool) (f : Form) (v : Val) (p : List Seg) :
    lcAcc isCap isB f v p (stringsLc LibCfg.fixed isCap isB f v p) = true := by
  have key : stringsLcAccepts isCap isB v p
      (match p with
       | [s] =>
         (match atoiSeg s with
          | none => .err
          | some idx =>
            if inRangeIdx idx (seqElems v).length && (!isCap || isB) then
              (match nth? (seqElems v) idx.toNat with
               | some e => .val (lenOf isCap e)
               | none => .untouched)
            else .untouched)
       | _ =>
         if (seqElems v).isEmpty then .untouched
         else if isCap then (if isB then .val (seqCap v) else .untouched)
         else .val (seqElems v).length) = true := by
    match p with
    | [] =>
      unfold stringsLcAccepts
      simp only []
      cases he : (seqElems v).isEmpty <;> cases isCap <;> cases isB <;> simp
    | _ :: _ :: _ => rfl
    | [s] =>
      unfold stringsLcAccepts
      simp only [seqAddr_eq]
      cases atoiSeg s with
      | none => rfl
      | some idx =>
        simp only []
        cases hr : inRangeIdx idx (seqElems v).length
        · simp
        · simp only [if_true, Bool.true_and]
          cases hn : nth? (seqElems v) idx.toNat with
          | none => simp
          | some e => cases isCap <;> cases isB <;> simp
  unfold lcAcc stringsLc
  cases f <;> first | exact key | rfl

theorem lc_no_panic (isCap isB : Bool) (f : Form) (v : Val) (p : List Seg) :
    stringsLc LibCfg.fixed isCap isB f v p ≠ .panic := by
  unfold stringsLc
  cases f <;> simp only [spOf, LibCfg.fixed, Bool.false_eq_true, if_false] <;> try (intro h; cases h)
  all_goals
    repeat' split
    all_goals (intro h; cases h)

/-! ### Set -/

theorem set_correct (isB : Bool) (f : Form) (v : Val) (p : List Seg) (src : Src) :
    setAcc isB f v p src (stringsSet LibCfg.fixed isB f v p src) = true := by
  have key : stringsSetAccepts isB v p src
      (match p with
       | [s] =>
         (match atoiSeg s with
          | none => .err v
          | some idx =>
            if !inRangeIdx idx (seqElems v).length then .ok v else
            match setText isB src with
            | none => .ok v
            | some none => if LibCfg.fixed.stringsNilSrcPanics then .panic else .ok v
            | some (some t) =>
              if t.isEmpty && LibCfg.fixed.stringsSetEmptyNoop then .ok v
              else
                let e : Val := if isB then .bytes false t t.length else .str t
                (match v with
                 | .slice nl es c => .ok (.slice nl (replaceNth es idx.toNat e) c)
                 | _ => .ok v))
       | _ => .ok v) = true := by
    match p with
    | [] => simp [stringsSetAccepts]
    | _ :: _ :: _ => simp [stringsSetAccepts]
    | [s] =>
      simp only []
      cases ha : atoiSeg s with
      | none =>
        have hm : atoiM s.text = none := ha
        simp [stringsSetAccepts, seqAddr_eq, ha]
      | some idx =>
        have hm : atoiM s.text = some idx := ha
        simp only []
        cases hr : inRangeIdx idx (seqElems v).length
        · simp [stringsSetAccepts, seqAddr_eq, ha, hr]
        · have hrange := (inRangeIdx_iff _ _).1 hr
          have hlt : idx.toNat < (seqElems v).length := by omega
          obtain ⟨e0, he0⟩ := nth?_some_of_lt (seqElems v) idx.toNat hlt
          simp only [Bool.not_true, Bool.false_eq_true, if_false]
          cases hst : setText isB src with
          | none =>
            simp [stringsSetAccepts, seqAddr_eq, ha, hr, he0, hst, hm]
          | some ot =>
            cases ot with
            | none =>
              simp [stringsSetAccepts, seqAddr_eq, ha, hr, he0, hst, hm, LibCfg.fixed]
            | some t =>
              simp only [LibCfg.fixed, Bool.and_false, Bool.false_eq_true, if_false]
              cases v with
              | slice nl es c =>
                have hlt' : idx.toNat < es.length := hlt
                simp only [seqElems] at hr he0
                have hrep := replaceNth_map_text (if isB then Val.bytes false t t.length else .str t) es idx.toNat hlt'
                have het : elemText (if isB then Val.bytes false t t.length else .str t) = t := by
                  cases isB <;> rfl
                rw [het] at hrep
                simp only [stringsSetAccepts, seqAddr_eq, ha, hr, he0, hst, hm, seqElems, if_true, hrep]
                simp
              | _ => simp [seqElems] at hlt
  unfold setAcc stringsSet
  cases f <;> first | exact key | rfl

/-- Set never panics — a typed-nil `*string` / `*[]byte` as the assigned value included (repaired:
`fix: StringsInspector.Set dereferenced a nil *string / *[]byte value`). -/
theorem set_no_panic (isB : Bool) (f : Form) (v : Val) (p : List Seg) (src : Src) :
    stringsSet LibCfg.fixed isB f v p src ≠ .panic := by
  unfold stringsSet
  match p with
  | [] => simp
  | _ :: _ :: _ => simp
  | [s] =>
    simp only [spOf, LibCfg.fixed]
    cases f <;> simp only [] <;> (try (intro h; cases h))
    all_goals
      cases atoiSeg s <;> simp only [] <;> (try (intro h; cases h))
      by_cases hr : (!inRangeIdx ‹Int› (seqElems v).length) = true
      · simp [hr]
      · simp only [hr]
        cases setText isB src with
        | none => simp
        | some ot =>
          cases ot with
          | none => simp
          | some t => simp only [Bool.and_false, Bool.false_eq_true, if_false]; cases v <;> simp

/-- The original library dereferenced the nil `*string`. -/
theorem original_panics_nil_src :
    (match stringsSet LibCfg.original false .ptr (.slice false [.str (strBytes "a")] 1) [{ text := strBytes "0" }]
      { kind := .string, isPtr := true, v := .nilptr } with | .panic => true | _ => false) = true := by decide

/-- Forms `sp` refuses (`**[]string`, untyped nil, foreign types, and — repaired — typed-nil pointers):
nothing happens. The driver's guard for these forms is `o == .ok v`. -/
theorem set_refused (isB : Bool) (f : Form) (v : Val) (p : List Seg) (src : Src) (hf : isSeqForm f = false) :
    stringsSet LibCfg.fixed isB f v p src = .ok v := by
  unfold stringsSet
  match p with
  | [] => rfl
  | _ :: _ :: _ => rfl
  | [s] => cases f <;> first | rfl | (simp [isSeqForm] at hf)

/-- What the driver observes of the destination (`dropCaps`: capacities and nil-versus-empty forgotten) denotes
the same sequence of texts, so `stringsSetAccepts` judges the observation as it judges the outcome. -/
theorem dropCaps_texts (v : Val) : (seqElems (dropCaps v)).map elemText = (seqElems v).map elemText := by
  have h1 : ∀ (f : Nat) (e : Val), elemText (dropCapsFuel f e) = elemText e := by
    intro f e
    cases f with
    | zero => rfl
    | succ f => cases e <;> rfl
  cases v with
  | slice nl es c =>
    show (es.map (dropCapsFuel 63)).map elemText = es.map elemText
    rw [List.map_map]
    apply List.map_congr_left
    intro e _
    exact h1 _ e
  | _ => rfl

/-! ### DeepEqual -/

theorem deq_seq (a b : Val) :
    stringsDeqAccepts a b
      (let x := (seqElems a).map elemText
       let y := (seqElems b).map elemText
       if x.isEmpty || y.isEmpty then
         (if LibCfg.fixed.stringsEmptyUnequal then .f else (if x.isEmpty && y.isEmpty then .t else .f))
       else if x == y then .t else .f) = true := by
  unfold stringsDeqAccepts
  simp only [LibCfg.fixed, Bool.false_eq_true, if_false]
  generalize (seqElems a).map elemText = x
  generalize (seqElems b).map elemText = y
  cases he : (x.isEmpty || y.isEmpty)
  · simp only [Bool.false_eq_true, if_false]; exact DeqOut.beq_refl _
  · simp only [if_true]
    cases hb : (x.isEmpty && y.isEmpty)
    · rw [list_empty_ne x y he hb]; rfl
    · simp only [Bool.and_eq_true] at hb
      rw [list_empty_beq x y hb.1 hb.2]; rfl

/-- Both directions, as the driver judges them. -/
theorem deq_correct (fl fr : Form) (a b : Val) :
    deqAcc fl fr a b (stringsDeq LibCfg.fixed fl fr a b, stringsDeq LibCfg.fixed fr fl b a) = true := by
  unfold deqAcc
  cases fl <;> cases fr <;>
    first
    | (simp only [isSeqForm]; exact (by
        show (stringsDeqAccepts a b _ && stringsDeqAccepts b a _) = true
        rw [Bool.and_eq_true]; exact ⟨deq_seq a b, deq_seq b a⟩))
    | rfl

theorem deq_no_panic (fl fr : Form) (a b : Val) : stringsDeq LibCfg.fixed fl fr a b ≠ .panic := by
  unfold stringsDeq
  cases fl <;> cases fr <;> simp only [spOf, LibCfg.fixed, Bool.false_eq_true, if_false] <;>
    first
    | (intro h; cases h)
    | (repeat' split
       all_goals (intro h; cases h))

/-! ### Loop -/

/-- The element node the strings inspector hands to the iterator. -/
def elemNode (isB : Bool) : Node :=
  if isB then .slice { typn := "[]byte" } (.basic { typn := "byte", typu := "byte" })
  else .basic { typn := "string", typu := "string" }

/-- Empty path, sequence held by value or pointer: the iterator receives the elements in order, with the
decimal index as key where it asked for one, up to and including the first Break; the loop ends normally
(the driver's guard: `fin == "done" && gs.length == expectedCount … && sliceGroupsOk …`). -/
theorem loop_correct (sc : LoopScript) (isB : Bool) (f : Form) (v : Val) (hf : isSeqForm f = true) :
    let r := stringsLoop LibCfg.fixed sc isB f v []
    r.fin = .done ∧ r.groups.length = expectedCount sc (seqElems v).length ∧
    sliceGroupsOk sc (elemNode isB) (seqElems v) (r.groups.map obsOfGroup) 0 = true := by
  have hr : stringsLoop LibCfg.fixed sc isB f v [] = ⟨loopElems sc (elemNode isB) (seqElems v) 0, .done⟩ := by
    cases f <;> first | rfl | (simp [isSeqForm] at hf)
  show (stringsLoop LibCfg.fixed sc isB f v []).fin = .done ∧
    (stringsLoop LibCfg.fixed sc isB f v []).groups.length = expectedCount sc (seqElems v).length ∧
    sliceGroupsOk sc (elemNode isB) (seqElems v) ((stringsLoop LibCfg.fixed sc isB f v []).groups.map obsOfGroup) 0 = true
  rw [hr]
  exact ⟨rfl, loopElems_count sc _ _, loopElems_groupsOk sc (elemNode isB) (seqElems v) 0⟩

/-- Any other path, or a form `sp` refuses: no callback, normal end. -/
theorem loop_nothing (sc : LoopScript) (isB : Bool) (f : Form) (v : Val) (p : List Seg)
    (h : p.isEmpty = false ∨ isSeqForm f = false) :
    (stringsLoop LibCfg.fixed sc isB f v p).groups = [] ∧ (stringsLoop LibCfg.fixed sc isB f v p).fin = .done := by
  unfold stringsLoop
  cases hp : p.isEmpty
  · exact ⟨rfl, rfl⟩
  · rcases h with h | h
    · rw [hp] at h; cases h
    · cases f <;> first | exact ⟨rfl, rfl⟩ | (simp [isSeqForm] at h)

/-! ### CopyTo and Reset -/

/-- CopyTo into a pointer appends the source texts; nothing is shared (the driver's guard
`s == 0 && (seqElems v).map elemText == dst ++ src`). -/
theorem copyTo_correct (dstIsB : Bool) (fs : Form) (src dst : Val) (hf : isSeqForm fs = true) :
    ∃ out, stringsCopyTo LibCfg.fixed dstIsB fs .ptr src dst = .ok out 0 ∧
      (seqElems out).map elemText = (seqElems dst).map elemText ++ (seqElems src).map elemText := by
  have hs : spOf LibCfg.fixed fs = .seq := by
    cases fs <;> first | rfl | (simp [isSeqForm] at hf)
  refine ⟨_, by simp only [stringsCopyTo, hs]; rfl, ?_⟩
  simp only [seqElems, List.map_append, List.map_map]
  congr 1
  apply List.map_congr_left
  intro e _
  cases dstIsB <;> rfl

/-- CopyTo into a value is refused with the must-be-pointer error. -/
theorem copyTo_value (dstIsB : Bool) (fs : Form) (src dst : Val) (hf : isSeqForm fs = true) :
    (match stringsCopyTo LibCfg.fixed dstIsB fs .val src dst with | .mustPointer => true | _ => false) = true := by
  cases fs <;> first | rfl | (simp [isSeqForm] at hf)

/-- Reset through a pointer truncates to length zero. -/
theorem reset_truncates (nl : Bool) (es : List Val) (c : Nat) :
    (match stringsReset LibCfg.fixed .ptr (.slice nl es c) with | .ok v => (seqElems v).length | _ => 1) = 0 := rfl

/-- … for every value (the driver's guard for `.ptr`: `(seqElems x).isEmpty`). -/
theorem reset_correct (v : Val) :
    (match stringsReset LibCfg.fixed .ptr v with | .ok x => (seqElems x).isEmpty | _ => false) = true := by
  cases v <;> rfl

theorem reset_value (v : Val) :
    (match stringsReset LibCfg.fixed .val v with | .mustPointer => true | _ => false) = true := rfl

/-- Reset never panics, a typed-nil pointer included (repaired). -/
theorem reset_no_panic (f : Form) (v : Val) :
    (match stringsReset LibCfg.fixed f v with | .panic => false | _ => true) = true := by
  cases f <;> (try rfl)
  cases v <;> rfl
theorem original_reset_panics_nil_ptr (v : Val) :
    (match stringsReset LibCfg.original .nilPtr v with | .panic => true | _ => false) = true := rfl

section NonVacuity
def seg (t : String) : Seg := { text := strBytes t }
/-- `[]string{"ab", "", "é"}` and the same as `[][]byte`. -/
def exS : Val := .slice false [.str (strBytes "ab"), .str [], .str (strBytes "é")] 3
def exB : Val := .slice false [.bytes false (strBytes "ab") 2, .bytes false [] 0, .bytes false (strBytes "é") 8] 4
def srcEmpty : Src := { kind := .string, v := .str [] }

example : (stringsGet LibCfg.fixed false .ptr exS [seg "2"] == .some "string" (.str (strBytes "é"))) = true := by decide
example : stringsCmp LibCfg.fixed .val exS [seg "0"] 3 (seg "aa") = .set true := by decide
example : stringsLc LibCfg.fixed true true .ptr exB [seg "2"] = .val 8 := by decide
example : (match stringsSet LibCfg.fixed false .ptr exS [seg "0"] srcEmpty with
    | .ok after => (seqElems after).map elemText == [[], [], strBytes "é"] | _ => false) = true := by decide
example : stringsDeq LibCfg.fixed .ptr .val exS exB = .t := by decide
example : ((stringsLoop LibCfg.fixed { wantKey := [true], ctl := [0] } false .val exS []).groups.map (·.key))
    = [some (strBytes "0"), some (strBytes "1"), some (strBytes "2")] := by decide

/-- Known finding `strings-set-empty-noop`: Set with the empty text leaves element 0 as it was. -/
theorem repo_not_correct_set_empty :
    stringsSetAccepts false exS [seg "0"] srcEmpty (stringsSet LibCfg.original false .ptr exS [seg "0"] srcEmpty) = false := by
  decide

/-- Known finding `strings-empty-unequal`: two empty sequences are reported unequal. -/
theorem repo_not_correct_empty_unequal :
    stringsDeqAccepts (.slice false [] 0) (.slice true [] 0)
      (stringsDeq LibCfg.original .val .val (.slice false [] 0) (.slice true [] 0)) = false := by
  decide

/-- Known finding `strings-cmp-out-of-range`: index `len` compares the empty string instead of leaving the result alone. -/
theorem repo_not_correct_cmp_out_of_range :
    stringsCmpAccepts exS [seg "3"] 2 (seg "x") (stringsCmp LibCfg.original .val exS [seg "3"] 2 (seg "x")) = false := by
  decide

/-- Known finding `strings-nil-ptr-panics`: a typed-nil pointer argument is dereferenced. -/
theorem repo_nil_ptr_panics : (stringsGet LibCfg.original false .nilPtr exS [seg "0"] == .panic) = true := by decide
end NonVacuity

/-! ### The tree as it is now

After the three `fix:` commits in strings.go the switches of this inspector that remain on in `LibCfg.repo`
only concern a typed-nil `*[]string` / `*[][]byte` argument (finding `strings-nil-ptr-panics`, C02). For every
other argument form the model of the *current* tree is the repaired model, so the theorems above are
statements about the code as it stands. -/
section CurrentTree

theorem spOf_repo (f : Form) (hf : f ≠ .nilPtr) : spOf LibCfg.repo f = spOf LibCfg.fixed f := by
  cases f <;> first | rfl | exact absurd rfl hf

theorem get_current (isB : Bool) (f : Form) (v : Val) (p : List Seg) (hf : f ≠ .nilPtr) :
    getAcc isB f v p (stringsGet LibCfg.repo isB f v p) = true := by
  have h : stringsGet LibCfg.repo isB f v p = stringsGet LibCfg.fixed isB f v p := by
    unfold stringsGet; rw [spOf_repo f hf]
  rw [h]; exact get_correct isB f v p

theorem cmp_current (f : Form) (v : Val) (p : List Seg) (op : Op) (right : Seg) (hf : f ≠ .nilPtr) :
    cmpAcc f v p op right (stringsCmp LibCfg.repo f v p op right) = true := by
  have h : stringsCmp LibCfg.repo f v p op right = stringsCmp LibCfg.fixed f v p op right := by
    unfold stringsCmp; rw [spOf_repo f hf]; rfl
  rw [h]; exact cmp_correct f v p op right

theorem lc_current (isCap isB : Bool) (f : Form) (v : Val) (p : List Seg) (hf : f ≠ .nilPtr) :
    lcAcc isCap isB f v p (stringsLc LibCfg.repo isCap isB f v p) = true := by
  have h : stringsLc LibCfg.repo isCap isB f v p = stringsLc LibCfg.fixed isCap isB f v p := by
    unfold stringsLc; rw [spOf_repo f hf]
  rw [h]; exact lc_correct isCap isB f v p

theorem set_current (isB : Bool) (f : Form) (v : Val) (p : List Seg) (src : Src) (hf : f ≠ .nilPtr) :
    setAcc isB f v p src (stringsSet LibCfg.repo isB f v p src) = true := by
  have h : stringsSet LibCfg.repo isB f v p src = stringsSet LibCfg.fixed isB f v p src := by
    unfold stringsSet; rw [spOf_repo f hf]; rfl
  rw [h]; exact set_correct isB f v p src

theorem deq_current (fl fr : Form) (a b : Val) (hl : fl ≠ .nilPtr) (hr : fr ≠ .nilPtr) :
    deqAcc fl fr a b (stringsDeq LibCfg.repo fl fr a b, stringsDeq LibCfg.repo fr fl b a) = true := by
  have h1 : stringsDeq LibCfg.repo fl fr a b = stringsDeq LibCfg.fixed fl fr a b := by
    unfold stringsDeq; rw [spOf_repo fl hl, spOf_repo fr hr]; rfl
  have h2 : stringsDeq LibCfg.repo fr fl b a = stringsDeq LibCfg.fixed fr fl b a := by
    unfold stringsDeq; rw [spOf_repo fl hl, spOf_repo fr hr]; rfl
  rw [h1, h2]; exact deq_correct fl fr a b

/-- Since `fix: StringsInspector dereferenced a typed-nil *[]string / *[][]byte` no switch of this inspector is
left on: for every argument form the model of the current tree is the repaired model. -/
theorem spOf_repo_all (f : Form) : spOf LibCfg.repo f = spOf LibCfg.fixed f := by cases f <;> rfl

theorem get_current_all (isB : Bool) (f : Form) (v : Val) (p : List Seg) :
    getAcc isB f v p (stringsGet LibCfg.repo isB f v p) = true := by
  have h : stringsGet LibCfg.repo isB f v p = stringsGet LibCfg.fixed isB f v p := by
    unfold stringsGet; rw [spOf_repo_all f]
  rw [h]; exact get_correct isB f v p

theorem get_no_panic_current (isB : Bool) (f : Form) (v : Val) (p : List Seg) :
    (stringsGet LibCfg.repo isB f v p == .panic) = false := by
  have h : stringsGet LibCfg.repo isB f v p = stringsGet LibCfg.fixed isB f v p := by
    unfold stringsGet; rw [spOf_repo_all f]
  rw [h]; exact get_no_panic isB f v p

end CurrentTree

end Inspector.C17
