/-
ForDriver.lean — what the executable driver links: models, specifications and the hypothesis predicates of
the theorems. It deliberately imports no `Props/` module and nothing under `Extracted/`: a proof obligation of
one property that stops checking (for instance a table regenerated from /repo that makes a `decide` fail) must
not take the driver — and with it the correspondence of every other property — down.
-/
import InspectorModel.Core.Basic
import InspectorModel.Core.Types
import InspectorModel.Core.Seg
import InspectorModel.Core.Lookup
import InspectorModel.Core.WF
import InspectorModel.Gen.Get
import InspectorModel.Gen.Cmp
import InspectorModel.Gen.LC
import InspectorModel.Gen.DEQ
import InspectorModel.Gen.Copy
import InspectorModel.Gen.Reset
import InspectorModel.Gen.Set
import InspectorModel.Gen.Loop
import InspectorModel.Gen.Alias
import InspectorModel.Gen.Select
import InspectorModel.Gen.Parsers
import InspectorModel.Lib.Assign
import InspectorModel.Lib.Strings
import InspectorModel.Lib.Static
import InspectorModel.Lib.StrAnyMap
import InspectorModel.Lib.Reflect
import InspectorModel.Lib.Buffer
import InspectorModel.Lib.Sharing
import InspectorModel.Spec.Nav
import InspectorModel.Spec.CmpSpec
import InspectorModel.Spec.LcSpec
import InspectorModel.Spec.StructEq
import InspectorModel.Spec.CopySpec
import InspectorModel.Spec.SetSpec
import InspectorModel.Spec.LoopSpec
import InspectorModel.Spec.Conv
import InspectorModel.Spec.StaticSpec
import InspectorModel.Spec.StringsSpec
import InspectorModel.Spec.StrAnyMapSpec
import InspectorModel.Spec.BufSpec
import InspectorModel.Spec.CopyHyp
import InspectorModel.Spec.CopyObs
import InspectorModel.Spec.SetHyps
-- hypothesis predicates evaluated on every real input live next to the lemmas that use them
import InspectorModel.Proofs.C09
import InspectorModel.Proofs.C10
import InspectorModel.Proofs.C15
import InspectorModel.Proofs.C18
import InspectorModel.Proofs.DEQHyps
import InspectorModel.Proofs.C02Hyps
import InspectorModel.Proofs.C13Hyps
