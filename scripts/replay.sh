#!/bin/sh
# replay.sh <replay file> — re-judges the recorded input lines with the current model and prints the verdict.
cd "$(dirname "$0")/.." || exit 2
python3 - "$1" <<'PY'
import json, subprocess, sys
d = json.load(open(sys.argv[1]))
print(json.dumps({k: v for k, v in d.items() if k != "replay_lines"}, indent=1)[:4000])
lines = d.get("replay_lines")
if lines:
    p = subprocess.run(["lean/.lake/build/bin/driver"], input="\n".join(lines) + "\n", text=True, capture_output=True)
    print("driver verdict:", p.stdout.strip())
PY
