package corr

import (
	"encoding/hex"
	"errors"
	"reflect"
	"strconv"
	"strings"

	"github.com/koykov/inspector"
)

var samapIns = inspector.StringAnyMapInspector{}

var samapKeys = []string{"a", "b", "k1", "nested", "x y", "", "日本", "deep"}

// genTree builds a JSON-like tree of map[string]any with scalar, string, []byte, nil and nested-map
// leaves; nested maps are held by value, by pointer or by double pointer.
func genTree(r *Rng, depth int) map[string]any {
	if r.Chance(1, 12) {
		return nil
	}
	m := map[string]any{}
	n := r.Intn(5)
	for i := 0; i < n; i++ {
		k := samapKeys[r.Intn(len(samapKeys))]
		m[k] = genNode(r, depth)
	}
	// siblings of the same holding form with different contents: two or three nested maps held by pointer / by
	// double pointer in one parent (a copy that reuses one variable for all of them is only visible here)
	if depth > 0 && r.Chance(1, 5) {
		form := r.Intn(2)
		for i, k := range []string{"sib1", "sib2", "sib3"}[:2+r.Intn(2)] {
			c := map[string]any{"id": i, k: "own-" + k}
			if r.Chance(1, 3) {
				c["sub"] = genTree(r, depth-1)
			}
			if form == 0 {
				m[k] = &c
			} else {
				pc := &c
				m[k] = &pc
			}
		}
	}
	return m
}

func genNode(r *Rng, depth int) any {
	c := r.Intn(14)
	if depth <= 0 && c >= 9 {
		c = r.Intn(9)
	}
	switch c {
	case 0:
		return r.Intn(1000) - 500
	case 1:
		return FloatOfFx(int64(r.Intn(1<<24)) - 1<<23)
	case 2:
		return samapKeys[r.Intn(len(samapKeys))] + strconv.Itoa(r.Intn(100))
	case 3:
		b := make([]byte, r.Intn(5), 8)
		for i := range b {
			b[i] = byte('a' + r.Intn(26))
		}
		return b
	case 4:
		return r.Bool()
	case 5:
		return nil
	case 6:
		s := "p" + strconv.Itoa(r.Intn(100))
		return &s
	case 7:
		x := int32(r.Intn(1000))
		return &x
	case 8:
		switch r.Intn(4) {
		case 0:
			return uint16(r.Intn(65536))
		case 1:
			b := []byte("ptr" + strconv.Itoa(r.Intn(10)))
			return &b
		case 2:
			return struct{}{}
		default:
			return int64(-r.Intn(1 << 40))
		}
	case 9, 10:
		return genTree(r, depth-1)
	case 11:
		m := genTree(r, depth-1)
		return &m
	case 12:
		m := genTree(r, depth-1)
		pm := &m
		return &pm
	default:
		if r.Chance(1, 4) {
			return (*map[string]any)(nil)
		}
		m := genTree(r, depth-1)
		return &m
	}
}

var mapAnyType = reflect.TypeOf(map[string]any(nil))

// samapArg builds the argument in a holding form around a deep copy of the tree.
func samapArg(m map[string]any, f Form) (any, func() map[string]any) {
	c := deepCopyTree(m)
	root := func() map[string]any { return c }
	switch f {
	case FormVal:
		return c, root
	case FormPtr:
		return &c, root
	case FormPtrPtr:
		p := &c
		return &p, root
	case FormNilP:
		return (*map[string]any)(nil), root
	case FormNilPP:
		var p *map[string]any
		return &p, root
	case FormNil:
		return nil, root
	default:
		return foreignT{X: 1}, root
	}
}

func deepCopyTree(m map[string]any) map[string]any {
	if m == nil {
		return nil
	}
	c := make(map[string]any, len(m))
	for k, v := range m {
		c[k] = deepCopyNode(v)
	}
	return c
}

func deepCopyNode(v any) any {
	switch x := v.(type) {
	case map[string]any:
		return deepCopyTree(x)
	case *map[string]any:
		if x == nil {
			return x
		}
		c := deepCopyTree(*x)
		return &c
	case **map[string]any:
		if x == nil {
			return x
		}
		if *x == nil {
			var p *map[string]any
			return &p
		}
		c := deepCopyTree(**x)
		pc := &c
		return &pc
	case []byte:
		if x == nil {
			return x
		}
		c := make([]byte, len(x), cap(x))
		copy(c, x)
		return c
	case *[]byte:
		c := append([]byte(nil), *x...)
		return &c
	case *string:
		s := *x
		return &s
	case *int32:
		n := *x
		return &n
	}
	return v
}

func serTree(m map[string]any) string { return Ser(reflect.ValueOf(&m).Elem()) }

func keyToks(path []string) string {
	var sb strings.Builder
	sb.WriteString(strconv.Itoa(len(path)))
	for _, k := range path {
		sb.WriteString(" h" + hex.EncodeToString([]byte(k)))
	}
	return sb.String()
}

func jerr(err error) string {
	if errors.Is(err, inspector.ErrUnsupportedType) {
		return "unsupported"
	}
	if errors.Is(err, inspector.ErrMustPointerType) {
		return "mustpointer"
	}
	return "err"
}

func anyTok(x any) string {
	if x == nil {
		return "An"
	}
	v := reflect.ValueOf(x)
	return "A " + ShapeOfType(v.Type(), true) + " " + Ser(v)
}

func (o *Out) declareTree(m map[string]any) string {
	tok := serTree(m)
	if id, ok := o.vals["J "+tok]; ok {
		return id
	}
	id := "j" + strconv.Itoa(len(o.vals))
	o.vals["J "+tok] = id
	o.Line("JV " + id + " " + tok)
	return id
}

// OpJGet emits one `JG` record.
func OpJGet(o *Out, m map[string]any, f Form, path []string) {
	before := serTree(m)
	arg, root := samapArg(m, f)
	out := "panic"
	func() {
		defer func() { _ = recover() }()
		var buf any
		err := samapIns.GetTo(arg, &buf, path...)
		if err != nil {
			out = jerr(err)
			return
		}
		if buf == nil && !(len(path) == 0 && arg == nil) {
			// a nil `any`: either nothing was stored or the addressed node is an untyped nil
			out = "nilany"
			return
		}
		out = "node " + anyTok(buf)
	}()
	mut := b01(serTree(root()) != before)
	o.Op("JG " + string(f) + " " + o.declareTree(m) + " | " + keyToks(path) + " | " + mut + " " + out)
}

// OpJCmp emits one `JC` record.
func OpJCmp(o *Out, m map[string]any, f Form, path []string, op int, right string) {
	before := serTree(m)
	run := func(init bool) (bool, string) {
		arg, _ := samapArg(m, f)
		res := init
		st := "ok"
		func() {
			defer func() {
				if r := recover(); r != nil {
					st = "panic"
				}
			}()
			if err := samapIns.Compare(arg, inspector.Op(op), right, &res, path...); err != nil {
				st = jerr(err)
			}
		}()
		return res, st
	}
	r0, s0 := run(false)
	r1, s1 := run(true)
	out := "nondet"
	switch {
	case s0 == "panic" || s1 == "panic":
		out = "panic"
	case s0 != s1:
		out = "nondet"
	case !r0 && r1:
		out = "untouched"
	case r0 == r1:
		out = "set" + b01(r0)
	}
	e := "0"
	if s0 == "unsupported" {
		e = "1"
	} else if s0 != "ok" && s0 != "panic" {
		e = "2"
	}
	_ = before
	o.Op("JC " + string(f) + " " + o.declareTree(m) + " | " + keyToks(path) + " | " + strconv.Itoa(op) + " " + SegTok(right) + " | " + out + " " + e)
}

// OpJLC emits one `JL` record.
func OpJLC(o *Out, m map[string]any, f Form, path []string, isCap bool) {
	arg, _ := samapArg(m, f)
	out := callLC(samapIns, isCap, arg, path)
	fn := "len"
	if isCap {
		fn = "cap"
	}
	o.Op("JL " + string(f) + " " + o.declareTree(m) + " | " + keyToks(path) + " | " + fn + " | " + out)
}

// OpJSet emits one `JS` record.
func OpJSet(o *Out, m map[string]any, f Form, path []string, src SrcSpec, bufMode string) {
	arg, root := samapArg(m, f)
	var buf *inspector.ByteBuffer
	if bufMode != "none" {
		buf = &inspector.ByteBuffer{}
	}
	out := "panic"
	func() {
		defer func() { _ = recover() }()
		var err error
		if buf == nil {
			err = samapIns.Set(arg, src.Any(), path...)
		} else {
			err = samapIns.SetWithBuffer(arg, src.Any(), buf, path...)
		}
		if err != nil {
			out = jerr(err) + " " + serTree(root())
		} else {
			out = "ok " + serTree(root())
		}
	}()
	o.Op("JS " + string(f) + " " + o.declareTree(m) + " | " + keyToks(path) + " | " + src.Toks() + " | " + bufMode + " | " + out)
}

// OpJCopy emits one `JP` record: Copy(x) (via=copy) or CopyTo into a fresh/non-empty destination (via=copyto).
func OpJCopy(o *Out, m map[string]any, f Form, via string) {
	before := serTree(m)
	arg, root := samapArg(m, f)
	out := "panic"
	func() {
		defer func() { _ = recover() }()
		var res map[string]any
		if via == "copy" {
			c, err := samapIns.Copy(arg)
			if err != nil {
				out = jerr(err)
				return
			}
			res, _ = c.(map[string]any)
		} else {
			dst := map[string]any{"stale": 1}
			// a buffer that holds something already, has room to spare, and keeps accumulating after the copy:
			// whatever the copy handed out must stay as it is
			buf := inspector.NewByteBuffer(256)
			buf.BufferizeString("hdr:")
			if err := samapIns.CopyTo(arg, &dst, buf); err != nil {
				out = jerr(err)
				return
			}
			accumulateMore(buf, 8)
			res = dst
		}
		shared := SharedCount(reflect.ValueOf(root()), reflect.ValueOf(res))
		out = "ok " + strconv.Itoa(shared) + " " + b01(serTree(root()) == before) + " " + serTree(res)
	}()
	o.Op("JP " + string(f) + " " + o.declareTree(m) + " | " + via + " | " + out)
}

// OpJReset emits one `JR` record.
func OpJReset(o *Out, m map[string]any, f Form) {
	arg, root := samapArg(m, f)
	out := "panic"
	func() {
		defer func() { _ = recover() }()
		if err := samapIns.Reset(arg); err != nil {
			out = jerr(err)
			return
		}
		out = "ok " + serTree(root())
	}()
	o.Op("JR " + string(f) + " " + o.declareTree(m) + " | " + out)
}

// OpJLoop emits one `JO` record.
func OpJLoop(o *Out, m map[string]any, f Form, path []string, wantKey bool, ctl []int) {
	arg, _ := samapArg(m, f)
	it := &recIter{wantKey: []bool{wantKey}, ctl: ctl}
	fin := "done"
	func() {
		defer func() {
			if r := recover(); r != nil {
				fin = "panic"
			}
		}()
		var buf []byte
		if err := samapIns.Loop(arg, it, &buf, path...); err != nil {
			fin = jerr(err)
		}
	}()
	var ck []string
	for _, c := range ctl {
		ck = append(ck, strconv.Itoa(c))
	}
	tail := ""
	if len(it.groups) > 0 {
		tail = " | " + strings.Join(it.groups, " | ")
	}
	o.Op("JO " + string(f) + " " + o.declareTree(m) + " | " + keyToks(path) + " | " + b01(wantKey) + " " + strings.Join(ck, "") + " | " + fin + " " + strconv.Itoa(len(it.groups)) + tail)
}

// treePaths enumerates key paths: resolving ones, absent at each level, through a non-map.
func treePaths(r *Rng, m map[string]any, depth int) [][]string {
	out := [][]string{{}, {"absent"}, {"absent", "x"}}
	var walk func(m map[string]any, prefix []string, d int)
	walk = func(m map[string]any, prefix []string, d int) {
		for k, v := range m {
			p := ext(prefix, k)
			out = append(out, p, ext(p, "absent"), ext(p, "a"))
			if d <= 0 {
				continue
			}
			switch x := v.(type) {
			case map[string]any:
				walk(x, p, d-1)
			case *map[string]any:
				if x != nil {
					walk(*x, p, d-1)
				}
			case **map[string]any:
				if x != nil && *x != nil {
					walk(**x, p, d-1)
				}
			}
		}
	}
	walk(m, nil, depth)
	return out
}
