/-
Proofs/C03Base.lean — groundwork for C03: `Val` equality is lawful, `dropCaps` as a structural function
(`D`) under the depth bound, list-update lemmas (`replaceNth`, `mapSet`, `lookupKey`, `findField`).
-/
import InspectorModel.Proofs.C04
import InspectorModel.Spec.SetSpec
import InspectorModel.Spec.SetHyps
set_option linter.unusedSimpArgs false
set_option linter.unusedVariables false
namespace Inspector.C03

/-! ### `Val.beq` is equality -/

mutual
theorem Val.eq_of_beq : ∀ (a b : Val), Val.beq a b = true → a = b
  | .bool _, b, h => by cases b <;> simp_all [Val.beq]
  | .int _, b, h => by cases b <;> simp_all [Val.beq]
  | .uint _, b, h => by cases b <;> simp_all [Val.beq]
  | .float _, b, h => by cases b <;> simp_all [Val.beq]
  | .str _, b, h => by cases b <;> simp_all [Val.beq]
  | .nilptr, b, h => by cases b <;> simp_all [Val.beq]
  | .bytes _ _ _, b, h => by cases b <;> simp_all [Val.beq]
  | .struct fs, b, h => by
    cases b <;> simp [Val.beq] at h
    rename_i gs
    rw [Val.eqList_of_beq fs gs h]
  | .map _ ks vs, b, h => by
    cases b <;> simp [Val.beq] at h
    rename_i nl2 ks2 vs2
    rw [Val.eqList_of_beq ks ks2 h.1.2, Val.eqList_of_beq vs vs2 h.2, h.1.1]
  | .slice _ es _, b, h => by
    cases b <;> simp [Val.beq] at h
    rename_i nl2 es2 c2
    rw [Val.eqList_of_beq es es2 h.1.2, h.1.1, h.2]
  | .ptr w, b, h => by
    cases b <;> simp [Val.beq] at h
    rename_i w2
    rw [Val.eq_of_beq w w2 h]
theorem Val.eqList_of_beq : ∀ (as bs : List Val), Val.beqList as bs = true → as = bs
  | [], bs, h => by cases bs <;> simp_all [Val.beqList]
  | a :: as, bs, h => by
    cases bs with
    | nil => simp [Val.beqList] at h
    | cons b bs =>
      simp [Val.beqList] at h
      rw [Val.eq_of_beq a b h.1, Val.eqList_of_beq as bs h.2]
end

instance : LawfulBEq Val where
  eq_of_beq {a b} h := Val.eq_of_beq a b h
  rfl {a} := Val.beq_refl a

/-! ### `dropCaps` structurally -/

mutual
def D : Val → Val
  | .bytes _ d _ => .bytes false d 0
  | .slice _ es _ => .slice false (Ds es) 0
  | .struct fs => .struct (Ds fs)
  | .map _ ks vs => .map false (Ds ks) (Ds vs)
  | .ptr w => .ptr (D w)
  | .bool b => .bool b
  | .int i => .int i
  | .uint n => .uint n
  | .float f => .float f
  | .str s => .str s
  | .nilptr => .nilptr
termination_by structural v => v
def Ds : List Val → List Val
  | [] => []
  | v :: vs => D v :: Ds vs
termination_by structural vs => vs
end

theorem Ds_eq_map (vs : List Val) : Ds vs = vs.map D := by
  induction vs with
  | nil => rfl
  | cons v vs ih => simp [Ds, ih]

@[simp] theorem Ds_length (vs : List Val) : (Ds vs).length = vs.length := by
  simp [Ds_eq_map]

mutual
theorem dropCapsFuel_eq_D : ∀ (v : Val) (f : Nat), vdepth v ≤ f → dropCapsFuel f v = D v
  | v, 0, h => by cases v <;> simp [vdepth] at h
  | .bytes _ _ _, f + 1, _ => by simp [dropCapsFuel, D]
  | .slice _ es _, f + 1, h => by
    simp only [vdepth] at h
    simp only [dropCapsFuel, D]
    rw [dropCapsFuel_map_eq_Ds es f (by omega)]
  | .struct fs, f + 1, h => by
    simp only [vdepth] at h
    simp only [dropCapsFuel, D]
    rw [dropCapsFuel_map_eq_Ds fs f (by omega)]
  | .map _ ks vs, f + 1, h => by
    simp only [vdepth] at h
    simp only [dropCapsFuel, D]
    rw [dropCapsFuel_map_eq_Ds ks f (by omega), dropCapsFuel_map_eq_Ds vs f (by omega)]
  | .ptr w, f + 1, h => by
    simp only [vdepth] at h
    simp only [dropCapsFuel, D]
    rw [dropCapsFuel_eq_D w f (by omega)]
  | .bool _, f + 1, _ => by simp [dropCapsFuel, D]
  | .int _, f + 1, _ => by simp [dropCapsFuel, D]
  | .uint _, f + 1, _ => by simp [dropCapsFuel, D]
  | .float _, f + 1, _ => by simp [dropCapsFuel, D]
  | .str _, f + 1, _ => by simp [dropCapsFuel, D]
  | .nilptr, f + 1, _ => by simp [dropCapsFuel, D]
theorem dropCapsFuel_map_eq_Ds : ∀ (vs : List Val) (f : Nat), vdepths vs ≤ f → vs.map (dropCapsFuel f) = Ds vs
  | [], _, _ => by simp [Ds]
  | v :: vs, f, h => by
    simp only [vdepths] at h
    simp only [List.map, Ds]
    rw [dropCapsFuel_eq_D v f (by omega), dropCapsFuel_map_eq_Ds vs f (by omega)]
end

theorem dropCaps_eq_D (v : Val) (h : vdepth v ≤ 64) : dropCaps v = D v :=
  dropCapsFuel_eq_D v 64 h

mutual
theorem vdepth_D : ∀ (v : Val), vdepth (D v) = vdepth v
  | .bytes _ _ _ => by simp [D, vdepth]
  | .slice _ es _ => by simp [D, vdepth, vdepths_Ds es]
  | .struct fs => by simp [D, vdepth, vdepths_Ds fs]
  | .map _ ks vs => by simp [D, vdepth, vdepths_Ds ks, vdepths_Ds vs]
  | .ptr w => by simp [D, vdepth, vdepth_D w]
  | .bool _ | .int _ | .uint _ | .float _ | .str _ | .nilptr => by simp [D, vdepth]
theorem vdepths_Ds : ∀ (vs : List Val), vdepths (Ds vs) = vdepths vs
  | [] => by simp [Ds, vdepths]
  | v :: vs => by simp [Ds, vdepths, vdepth_D v, vdepths_Ds vs]
end

mutual
theorem D_idem : ∀ (v : Val), D (D v) = D v
  | .bytes _ _ _ => by simp [D]
  | .slice _ es _ => by simp [D, Ds_idem es]
  | .struct fs => by simp [D, Ds_idem fs]
  | .map _ ks vs => by simp [D, Ds_idem ks, Ds_idem vs]
  | .ptr w => by simp [D, D_idem w]
  | .bool _ | .int _ | .uint _ | .float _ | .str _ | .nilptr => by simp [D]
theorem Ds_idem : ∀ (vs : List Val), Ds (Ds vs) = Ds vs
  | [] => by simp [Ds]
  | v :: vs => by simp [Ds, D_idem v, Ds_idem vs]
end

theorem vdepth_pos (v : Val) : 1 ≤ vdepth v := by
  cases v <;> simp [vdepth]

end Inspector.C03
