/-
Props/C15.lean — property theorems for C15 (no reflection, no allocation, alias of the live element).

What is proved: no generated file imports `reflect` (over the import table regenerated on every run), and —
for every type tree, value and path of the property's path class — the address-of decisions of get mode
hand out a reference into the object itself (`alias_live`), for the emitter as it is (the alias model has no
defect switch). What a theorem cannot show: the allocation counts; they are measured by the harness
(`testing.AllocsPerRun` on every record of the class) and compared with zero — supporting evidence, partial.
-/
import InspectorModel.Proofs.C15
import InspectorModel.Extracted.Imports
namespace Inspector.C15

/-- No generated file (committed, regenerated for testobj, generated for the grammar slice of this run)
imports `reflect`. The import sets are extracted from the files on every run. -/
theorem no_reflect : generatedImportSets.all (fun s => !s.contains "\"reflect\"") = true := by decide

/-- On every path made of struct fields, non-nil pointers and struct-slice indices that ends on an existing
element — a scalar, string or bytes leaf, or a struct, slice or map — the reference GetTo hands out is the
address of the live element. -/
theorem alias_live (n : Node) (v : Val) (p : List Seg) (hok : AliasOK n = true)
    (h : inAliasClass n v p = true) : aliasN n v p true = some true :=
  aliasN_live p n v hok h

section NonVacuity
def exNode : Node :=
  .struct { typn := "T" } [
    .slice { typn := "[]*Inner", name := "L" } (.struct { typn := "Inner", ptr := true } [.basic { typn := "int", typu := "int", name := "A" }])]
def exVal : Val := .struct [.slice false [.ptr (.struct [.int 3])] 1]
def exPath : List Seg := [{ text := strBytes "L" }, { text := strBytes "0", pi := some 0 }, { text := strBytes "A" }]
example : AliasOK exNode = true ∧ inAliasClass exNode exVal exPath = true := by decide +kernel
/-- The class also holds paths that end on a container: the slice field `L`, its element `L.0`. -/
example : inAliasClass exNode exVal (exPath.take 1) = true ∧ inAliasClass exNode exVal (exPath.take 2) = true ∧
    aliasN exNode exVal (exPath.take 1) true = some true := by decide +kernel
/-- Outside the class the reference may be a copy: an element of a map is a local copy. -/
example : aliasN (.map { typn := "map[string]int" } (.basic { typn := "string", typu := "string" }) (.basic { typn := "int", typu := "int" }))
    (.map false [.str (strBytes "a")] [.int 1]) [{ text := strBytes "a" }] true = some false := by decide +kernel
end NonVacuity

end Inspector.C15
