package corr

import "reflect"

func init() {
	Runners["C03"] = runC03
}

func runC03(p *Plan) {
	r := NewRng(p.Seed)
	nRandom := scale(p.Tier, 2, 10)
	perValue := scale(p.Tier, 50, 200)
	perPath := scale(p.Tier, 3, 8)
	modes := []string{"none", "none", "empty", "filled"}
	for _, e := range p.Types {
		tr := r.Fork(hashStr(e.Name))
		for _, vc := range valuesFor(p, e, tr, nRandom) {
			ps := EnumPaths(tr, vc.v, perValue)
			for i, path := range ps.Paths {
				el, found := NavReflect(vc.v, path)
				own := ""
				if found {
					for el.Kind() == reflect.Ptr && !el.IsNil() {
						el = el.Elem()
					}
					own = kindNameOf(el)
				}
				for j := 0; j < perPath; j++ {
					kind := KindNames[tr.Intn(len(KindNames))]
					switch {
					case own != "" && j == 0:
						kind = own
					case own != "" && tr.Chance(1, 3):
						kind = []string{"string", "[]byte"}[tr.Intn(2)] // decimal text
					}
					src := GenSrc(tr, kind)
					if src.Form == "pn" && tr.Chance(2, 3) {
						src.Form = "p"
					}
					if tr.Chance(1, 25) {
						src = SrcSpec{Kind: "foreign", Form: "foreign"}
					}
					f := FormPtr
					if tr.Chance(1, 6) {
						f = FormPtrPtr
					}
					OpSet(p.Out, e, vc.v, f, path, src, modes[tr.Intn(4)])
					p.Out.Count("path:" + ps.Kinds[i])
					p.Out.Count("srckind:" + kind)
				}
			}
		}
	}
}
