/-
Driver/Main.lean — reads op records (inputs + the implementation's outcome), evaluates model, spec and
known-finding classes, prints one verdict per op:
  <line> agree | known <class> | model-viol <model> | dev-ok <model> | dev-viol <model> | skip <why>
-/
import Driver.GenOps
import Driver.LibOps
open Inspector Inspector.Driver

/-- Ops on a built-in inspector: dispatch on the type id. -/
def handleBuiltin (st : St) (b : String) (parts : List (List String)) : String :=
  if b.startsWith "strings" then
    match parts with
    | ("L" :: _) :: _ => stringsOpLoop st b parts
    | [head, path, out] =>
      (match head.head? with
       | some "GT" | some "G" => stringsOpGet st b head path out
       | some "CT" => stringsOpCopyTo st head path out
       | some "RS" => stringsOpReset st head out
       | _ => "skip unknown-op")
    | [head, path, arg, out] =>
      (match head.head? with
       -- HS: two unbuffered Sets on one sequence, judged by the harness (test-level observation)
       | some "HS" =>
         (match out with
          | ["kept"] => "agree"
          | ["err"] => "skip history-step-refused"
          | ["changed"] => "dev-viol an element stored by an earlier Set changed"
          | ["panic"] => "dev-viol panic"
          | _ => "skip malformed")
       | some "C" => stringsOpCmp st b head path arg out
       | some "LC" => stringsOpLC st b head path arg out
       | _ => "skip unknown-op")
    | [head, path, src, _mode, out] =>
      (match head.head? with
       | some "S" => stringsOpSet st b head path src out
       | _ => "skip unknown-op")
    | _ => "skip malformed"
  else "skip unknown-builtin"

def handle (st : St) (line : String) : St × Option String :=
  let parts := splitBar line
  let tidOf : Option String := match parts with | (_ :: tid :: _) :: _ => some tid | _ => none
  if line.startsWith "PK " then
    (match parts with
     | [[_, nm, path]] => ({ st with pk := { name := nm, path := path, decls := [] } }, none)
     | _ => (st, some "skip malformed")) else
  if line.startsWith "PD " then
    (match parts with
     | (_ :: nm :: toks) :: _ =>
       (match parseTExpr toks with
        | some (e, _) => ({ st with pk := { st.pk with decls := st.pk.decls ++ [(nm, e)] } }, none)
        | none => (st, some "skip bad-decl"))
     | _ => (st, some "skip malformed")) else
  if line.startsWith "PX " then
    (match parts with
     | [head, a, b] => (st, some (opParsers st.pk head a b))
     | _ => (st, some "skip malformed")) else
  if line.startsWith "RACE " then
    (match parts with
     | [_, [mism, first]] => (st, some (if mism == "0" then "agree" else "dev-viol concurrent-call-differs-from-sequential " ++ first))
     | _ => (st, some "skip malformed")) else
  if line.startsWith "BH " then (st, some (opBufferHistory st parts)) else
  if line.startsWith "J" then
    (match parts with
     | ("JV" :: vid :: toks) :: _ => ({ st with jtoks := st.jtoks.insert vid toks }, none)
     | parts =>
       let vid := (parts.head?.getD []).getD 2 ""
       let trees : Std.HashMap String JVal := match st.jtoks[vid]? with
         | some toks => (match parseJMap 0 toks with | some (m, _) => ({} : Std.HashMap String JVal).insert vid m | none => {})
         | none => {}
       -- hypotheses of the C18 theorems (maps are duplicate-free, nil maps empty, leaves typed, the node of a nil
       -- pointer to a map is a nil map), on every tree read
       if trees.fold (fun acc _ m => acc || !(Inspector.C18.JMapsOK m && Inspector.C18.JLeavesOK m && Inspector.C18.JNilPtrsOK m)) false then
         (st, some "dev-ok hypothesis JMapsOK/JLeavesOK/JNilPtrsOK of the C18 theorems does not hold for this tree") else
       (match parts with
        | ("JO" :: _) :: _ => (st, some (samapOpLoop st trees parts))
        | [h, path, out] =>
          (match h.head? with
           | some "JG" => (st, some (samapOpGet st trees h path out))
           | some "JP" => (st, some (samapOpCopy st trees h path out))
           | _ => (st, some "skip unknown-op"))
        | [h, out] => (match h.head? with | some "JR" => (st, some (samapOpReset st trees h out)) | _ => (st, some "skip unknown-op"))
        | [h, path, arg, out] =>
          (match h.head? with
           | some "JL" => (st, some (samapOpLC st trees h path arg out))
           | some "JC" => (st, some (samapOpCmp st trees h path arg out))
           | _ => (st, some "skip unknown-op"))
        | [h, path, src, _mode, out] =>
          (match h.head? with
           | some "JS" => (st, some (samapOpSet st trees h path src out))
           | _ => (st, some "skip unknown-op"))
        | _ => (st, some "skip malformed"))) else
  if line.startsWith "X" then
    (match parts with
     | [["XC"], src, arg, out] => (st, some (staticOpCmp st src arg out))
     | [["XF"], src, arg, out] => (st, some (staticOpCmpSpecial st src arg out))
     | [["XD"], l, r, out] => (st, some (staticOpDeq st l r out))
     | [["XL"], src, fn, out] => (st, some (staticOpLC st src fn out))
     | [["XG"], src, out] => (st, some (staticOpGet st src out))
     | [["XP"], src, out] => (st, some (staticOpCopy st src out))
     | [["XT"], src, dst, out] => (st, some (staticOpCopyTo st src dst out))
     | [["XR"], src, out] => (st, some (staticOpReset st src out))
     | _ => (st, some "skip malformed")) else
  if line.startsWith "D2 " then
    (match parts with | [head, out] => (st, some (stringsOpDeq st head out)) | _ => (st, some "skip malformed")) else
  match tidOf.bind (fun t => st.builtins[t]?), line.startsWith "T " || line.startsWith "V " with
  | some b, false => (st, some (handleBuiltin st b parts))
  | _, _ =>
  if line.startsWith "L " then (st, some (opLoop st parts)) else
  match parts with
  | ("T" :: tid :: "X" :: name :: _) :: _ => ({ st with builtins := st.builtins.insert tid name }, none)
  | ("T" :: tid :: toks) :: _ =>
    match parseNode toks with
    | some (n, _) =>
      -- the theorems' hypothesis on type trees is evaluated on every tree read
      ({ st with types := st.types.insert tid n }, if NodeWF n then none else some "dev-ok hypothesis NodeWF does not hold for this type tree")
    | none => (st, some "skip bad-type")
  | ("V" :: vid :: tid :: toks) :: _ =>
    match parseVal toks, st.types[tid]? with
    | some (v, _), some n =>
      let cv := coerce n v
      -- … and so is well-typedness of every value against its tree
      ({ st with vals := st.vals.insert vid cv }, if WT n cv then none else some "dev-ok hypothesis WT does not hold for this value")
    | some (v, _), none => ({ st with vals := st.vals.insert vid v }, none)
    | none, _ => (st, none)       -- values the model cannot name (inexact floats): ops on them are skipped
  | ["MODE", m] :: _ => ({ st with mode := m }, none)
  | ["CFG", k, v] :: _ =>
    if k == "fallThroughAlways" then ({ st with cfg := { st.cfg with fallThroughAlways := v == "1" } }, none)
    else (st, none)
  | [head, out] =>
    match head.head? with
    | some "RG" => (st, some (opRegistry st head out))
    -- FA <tid> | <answers> — DeepEqual of one object with itself through T, *T (the same pointer on both sides),
    -- **T, and *T against a pointer to an independent copy, on a value whose floats are all NaN (not a value of the
    -- model: C12.deq_forms_agree says the answers agree for every value it can name; here the claim "the same answer
    -- in every form" is observed directly). A test-level observation: no model function is evaluated.
    -- U8 <name> <expr> <source form> | stored|lost|err|panic|other — Set of element 0 of a `[]uint8`-spelled field
    -- (a slice of scalars for the generator, `[]byte` for reflection: the one shape the value model cannot carry)
    -- with the number 7 in every source form; judged by the harness. C03: the value is convertible, so reading the
    -- path must yield it. A test-level observation: no model function is evaluated.
    | some "U8" =>
      (st, some (match out with
        | ["stored"] => "agree"
        | ["lost"] => "dev-viol a convertible value was not stored in the addressed element"
        | ["panic"] => "dev-viol panic"
        | ["err"] => "dev-viol Set refused a convertible value"
        | _ => "dev-viol the slice is neither updated at the addressed element only nor unchanged"))
    | some "FA" =>
      (st, some (match out with
        | a :: rest =>
          if a == "panic" || rest.any (· == "panic") then "dev-viol panic"
          else if rest.all (· == a) then "agree" else "dev-viol DeepEqual answers differ between argument forms"
        | [] => "skip malformed"))
    | _ => (st, some "skip unknown-op")
  | [head, path, out] =>
    match head.head? with
    | some "CM" => (st, some (opCompiles st head path))
    | some "GT" | some "G" => (st, some (opGet st head path out))
    | some "GR" => (st, some (opReflectGet st head path out))
    | some "FC" => (st, some (genOpCmpSpecial st path out))
    | some "CP" => (st, some (opCopy st head out))
    | some "CT" => (st, some (opCopyTo st head out))
    | some "RS" => (st, some (opReset st head out))
    | some "CY" => (st, some (opCycle st [head, path, out]))
    | _ => (st, some "skip unknown-op")
  | [head, path, arg, out] =>
    match head.head? with
    | some "C" => (st, some (opCmp st head path arg out))
    | some "A" => (st, some (opAssign st head path arg out))
    | some "LC" => (st, some (opLC st head path arg out))
    | some "GW" => (st, some (opAlias st head path arg out))
    | some "D" => (st, some (opDeq st head path arg out))
    | some "CY" => (st, some (opCycle st [head, path, arg, out]))
    -- HS <tid> p <vid> | <path A> | <path B> | kept|changed|err|panic — a Set history on one object with a shared
    -- buffer, judged by the harness: the third (unbuffered) Set into A must leave everything off A as it was
    -- (C03's frame clause in a state where values handed out by a buffer are neighbours; C07.handles_never_overlap
    -- is why the repaired library keeps it). A test-level observation: no model function is evaluated here.
    | some "HS" =>
      (st, some (match out with
        | ["kept"] => "agree"
        | ["err"] => "skip history-step-refused"
        | ["changed"] => "dev-viol off-path element changed by the last Set of a buffered history"
        | ["panic"] => "dev-viol panic"
        | _ => "skip malformed"))
    | _ => (st, some "skip unknown-op")
  | [head, path, src, mode, out] =>
    match head.head? with
    | some "S" => (st, some (opSet st head path src mode out))
    | some "CY" => (st, some (opCycle st [head, path, src, mode, out]))
    | _ => (st, some "skip unknown-op")
  | parts =>
    match parts.head? with
    | some ("L" :: _) => (st, some (opLoop st parts))
    | some ("CY" :: _) => (st, some (opCycle st parts))
    | _ => (st, some "skip malformed")

partial def loop (h : IO.FS.Stream) (st : St) (lineNo : Nat) : IO Unit := do
  let line ← h.getLine
  if line.isEmpty then return ()
  let line := line.trimAsciiEnd.toString
  let (st', out) := handle st line
  match out with
  | some o => IO.println s!"{lineNo} {o}"
  | none => pure ()
  loop h st' (lineNo + 1)

def main : IO Unit := do
  loop (← IO.getStdin) {} 1
