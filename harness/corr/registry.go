package corr

import (
	"reflect"

	"github.com/koykov/inspector"
)

// TypeEntry ties a Go type to its inspector and to the parsed tree the generator saw for it.
type TypeEntry struct {
	Group   string // "shipped" (committed testobj_ins), "fresh" (testobj regenerated now), "grammar"
	Name    string
	Type    reflect.Type
	Ins     inspector.Inspector
	XML     string // path of the XML dump
	Node    *XNode
	Tid     string
	Expr    string // grammar shapes: the field / root type expression
	Fam     string // grammar shapes: family for the distribution
	Builtin string // built-in inspectors: "strings-s", "strings-b", "samap", "static"
}

// Builtins are the hand-written inspectors; they need no generated code.
var Builtins = []*TypeEntry{
	{Group: "builtin", Name: "[]string", Type: reflect.TypeOf([]string(nil)), Ins: inspector.StringsInspector{}, Builtin: "strings-s"},
	{Group: "builtin", Name: "[][]byte", Type: reflect.TypeOf([][]byte(nil)), Ins: inspector.StringsInspector{}, Builtin: "strings-b"},
}

var Registry []*TypeEntry

// Register is called from the generated main of a check run.
func Register(group, name string, zero any, ins inspector.Inspector, xmlPath string) {
	Registry = append(Registry, &TypeEntry{Group: group, Name: name, Type: reflect.TypeOf(zero), Ins: ins, XML: xmlPath})
}

// RegisterShape registers a grammar shape together with its expression and family.
func RegisterShape(group, name string, zero any, ins inspector.Inspector, xmlPath, expr, fam string) {
	Registry = append(Registry, &TypeEntry{Group: group, Name: name, Type: reflect.TypeOf(zero), Ins: ins, XML: xmlPath, Expr: expr, Fam: fam})
}

// ReflectOnly are declared grammar shapes without a (compiling) generated inspector: named scalars, named or
// byte map keys, … (the open C14 classes). ReflectInspector needs no generated code, so C02 runs it over them.
var ReflectOnly []*TypeEntry

func RegisterReflectOnly(name string, zero any, xmlPath, expr, fam string) {
	ReflectOnly = append(ReflectOnly, &TypeEntry{Group: "reflectonly", Name: name, Type: reflect.TypeOf(zero), XML: xmlPath, Expr: expr, Fam: fam})
}

// Conly are the compile-only shapes (`[]uint8` spellings): generated, compiled, driven by hand-written records only.
var Conly []*TypeEntry

func RegisterConly(name string, zero any, ins inspector.Inspector, expr string) {
	Conly = append(Conly, &TypeEntry{Group: "conly", Name: name, Type: reflect.TypeOf(zero), Ins: ins, Expr: expr})
}
