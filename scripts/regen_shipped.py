#!/usr/bin/env python3
"""Development aid for generator `fix:` commits: regenerates <repo>/testobj_ins and <repo>/testdata with the
CURRENT generator of that tree (package target, exactly how the shipped files were produced) and copies them in
place. Builds only the generator driver (`gengram -phase targets`), not the whole preparation. Not used by any check."""
import os, shutil, sys, tempfile
sys.path.insert(0, os.path.dirname(os.path.abspath(__file__)))
import vlib
wd = tempfile.mkdtemp(prefix="regen_shipped_")
try:
    exe = os.path.join(wd, "gengram")
    vlib.harness_build(wd, exe, "./cmd/gengram")
    root = os.path.join(wd, "root")
    os.makedirs(root)
    p = vlib.run([exe, "-root", root, "-phase", "targets", "-run", "A"], cwd=wd, check=False)
    src = os.path.join(root, "targets", "A", "gopath", "src")
    n = m = 0
    for f in sorted(os.listdir(os.path.join(src, "pkgout"))):
        if f.endswith("_ins.go"):
            shutil.copy(os.path.join(src, "pkgout", f), os.path.join(vlib.REPO, "testobj_ins", f)); n += 1
    for f in sorted(os.listdir(os.path.join(src, "pkgxml"))):
        if f.endswith(".xml"):
            shutil.copy(os.path.join(src, "pkgxml", f), os.path.join(vlib.REPO, "testdata", f)); m += 1
    print("copied %d inspector files and %d xml dumps" % (n, m))
finally:
    shutil.rmtree(wd, ignore_errors=True)
