module verifharness

go 1.22.0

require (
	github.com/koykov/inspector v0.0.0
	golang.org/x/tools v0.28.0
)

require (
	github.com/koykov/byteconv v1.0.1 // indirect
	github.com/koykov/x2bytes v1.0.2 // indirect
	golang.org/x/mod v0.22.0 // indirect
	golang.org/x/sync v0.10.0 // indirect
)

replace github.com/koykov/inspector => /repo
