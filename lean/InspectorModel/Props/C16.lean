/-
Props/C16.lean — property theorems for C16 (static inspector).
-/
import InspectorModel.Lib.Static
import InspectorModel.Spec.StaticSpec
namespace Inspector.C16

/-- An operand of any other type compares as `false`. -/
theorem cmp_foreign (c : LibCfg) (s : Src) (op : Op) (r : Seg) (h : s.kind = .foreign) :
    staticCmp c s op r = .set false := by
  simp [staticCmp, h]

end Inspector.C16
