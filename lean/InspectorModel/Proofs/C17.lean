/-
Proofs/C17.lean — helper lemmas for C17: the repaired model of the strings inspector agrees with the sequence it wraps.
-/
import InspectorModel.Proofs.C04
import InspectorModel.Spec.StringsSpec
import InspectorModel.Spec.LoopSpec
set_option linter.unusedSimpArgs false
set_option linter.unusedVariables false
namespace Inspector.C17

/-! ### Index arithmetic -/

theorem inRangeIdx_iff (idx : Int) (n : Nat) : inRangeIdx idx n = true ↔ (0 ≤ idx ∧ idx < (n : Int)) := by
  unfold inRangeIdx
  simp only [Bool.and_eq_true, decide_eq_true_eq]
  constructor
  · intro h; exact ⟨h.1.1, h.1.2⟩
  · intro h; refine ⟨⟨h.1, h.2⟩, ?_⟩; omega

theorem inRangeIdx_false_iff (idx : Int) (n : Nat) : inRangeIdx idx n = false ↔ ¬ (0 ≤ idx ∧ idx < (n : Int)) := by
  rw [← inRangeIdx_iff]; simp

theorem toNat_lt_of_inRange (idx : Int) (n : Nat) (h : 0 ≤ idx ∧ idx < (n : Int)) : idx.toNat < n := by omega

/-- The spec's addressing function in terms of the model's range check. -/
theorem seqAddr_eq (v : Val) (s : Seg) :
    seqAddr v s = (match atoiSeg s with
      | none => none
      | some idx => if inRangeIdx idx (seqElems v).length then some (nth? (seqElems v) idx.toNat) else some none) := by
  unfold seqAddr atoiSeg
  cases atoiM s.text with
  | none => rfl
  | some idx =>
    simp only []
    by_cases h : (0 ≤ idx ∧ idx < ((seqElems v).length : Int))
    · rw [if_pos h, if_pos ((inRangeIdx_iff _ _).2 h)]
    · rw [if_neg h]
      have := (inRangeIdx_false_iff idx (seqElems v).length).2 h
      simp only [this, Bool.false_eq_true, if_false]

/-! ### Reflexivity of the outcome comparisons -/

theorem LcOut.beq_refl (o : LcOut) : (o == o) = true := by simp
theorem DeqOut.beq_refl (o : DeqOut) : (o == o) = true := by simp
theorem Val.beq_refl' (v : Val) : (v == v) = true := Val.beq_refl v
theorem listBytes_beq_refl (l : List Bytes) : (l == l) = true := by simp

/-! ### Compare: the six-way switch on texts is the native comparison of strings -/

theorem strCmpSix_native (op : Op) (l r : Bytes) :
    (match nativeCmp op (.str l) (.str r) with
     | some b => strCmpSix op l r == .set b
     | none => true) = true := by
  unfold nativeCmp strCmpSix
  simp only [valEq, valLt]
  by_cases h1 : (op == 1) = true
  · have : (op == 2) = false := by
      have : op = 1 := by simpa using h1
      subst this; decide
    simp [h1, this]
  · have h1' : (op == 1) = false := by simpa using h1
    by_cases h2 : (op == 2) = true
    · simp [h1', h2]
    · have h2' : (op == 2) = false := by simpa using h2
      by_cases h3 : (op == 3) = true
      · simp [h1', h2', h3]
      · have h3' : (op == 3) = false := by simpa using h3
        by_cases h4 : (op == 4) = true
        · simp [h1', h2', h3', h4]
        · have h4' : (op == 4) = false := by simpa using h4
          by_cases h5 : (op == 5) = true
          · simp [h1', h2', h3', h4', h5]
          · have h5' : (op == 5) = false := by simpa using h5
            by_cases h6 : (op == 6) = true
            · simp [h1', h2', h3', h4', h5', h6]
            · have h6' : (op == 6) = false := by simpa using h6
              simp [h1', h2', h3', h4', h5', h6']

/-! ### Set: replacing element i -/

theorem replaceNth_map_text (e : Val) : ∀ (es : List Val) (i : Nat), i < es.length →
    (replaceNth es i e).map elemText = (es.map elemText).take i ++ [elemText e] ++ (es.map elemText).drop (i + 1)
  | [], _, h => by cases h
  | x :: xs, 0, _ => by simp [replaceNth]
  | x :: xs, i + 1, h => by
    have := replaceNth_map_text e xs i (by simpa using h)
    simp [replaceNth, this]

theorem setText_some_none (isB : Bool) (src : Src) (h : setText isB src = some none) : src.v.isNilPtr = true := by
  unfold setText at h
  cases hv : src.v <;> simp [hv, Val.isNilPtr] at h ⊢

/-! ### DeepEqual -/

theorem list_empty_beq {α : Type} [BEq α] (a b : List α) (ha : a.isEmpty = true) (hb : b.isEmpty = true) : (a == b) = true := by
  cases a <;> cases b <;> simp_all

theorem list_empty_ne {α : Type} [BEq α] (a b : List α) (h : (a.isEmpty || b.isEmpty) = true)
    (h2 : (a.isEmpty && b.isEmpty) = false) : (a == b) = false := by
  cases a <;> cases b <;> simp_all

/-! ### Loop: every element in order with its decimal index, up to and including the first Break -/

/-- A model group as the harness observes it (key text as a segment, shape of the element node). -/
def obsOfGroup (g : LoopGroup) : ObsGroup :=
  { key := g.key.map (fun t => { text := t }), ins := g.ins, shape := shapeOf g.node, val := g.val }

theorem loopElems_groupsOk (sc : LoopScript) (e : Node) : ∀ (es : List Val) (i : Nat),
    sliceGroupsOk sc e es ((loopElems sc e es i).map obsOfGroup) i = true
  | [], i => by simp [loopElems, sliceGroupsOk]
  | x :: xs, i => by
    have ih := loopElems_groupsOk sc e xs (i + 1)
    have hg : groupMatches e (scriptAt sc.wantKey i false) (fun s => s.text == renderNat i) x
        (obsOfGroup { key := if scriptAt sc.wantKey i false then some (renderNat i) else none,
                      node := e, val := x, ins := elemInspector e }) = true := by
      unfold groupMatches obsOfGroup
      cases hw : scriptAt sc.wantKey i false <;>
        simp [Val.beq_refl']
    unfold loopElems
    simp only []
    by_cases hc : (scriptAt sc.ctl i 0 == 1) = true
    · simp only [hc, if_true, List.map, sliceGroupsOk, hg, Bool.and_self]
    · have hc' : (scriptAt sc.ctl i 0 == 1) = false := by simpa using hc
      simp only [hc', Bool.false_eq_true, if_false, List.map, sliceGroupsOk, hg, ih, Bool.and_self]

theorem expectedCount_go (sc : LoopScript) (e : Node) : ∀ (es : List Val) (i n : Nat) (fuel : Nat),
    i + es.length = n → es.length ≤ fuel →
    i + (loopElems sc e es i).length = expectedCount.go sc n i fuel
  | [], i, n, fuel, h, _ => by
    have : i ≥ n := by simp at h; omega
    cases fuel with
    | zero => simp [loopElems, expectedCount.go]; simpa using h
    | succ f => simp [loopElems, expectedCount.go, this]; simpa using h
  | x :: xs, i, n, fuel, h, hf => by
    cases fuel with
    | zero => simp at hf
    | succ f =>
      have hlt : ¬ i ≥ n := by simp at h; omega
      unfold loopElems expectedCount.go
      simp only [hlt, if_false]
      by_cases hc : (scriptAt sc.ctl i 0 == 1) = true
      · simp only [hc, if_true, List.length_cons, List.length_nil]
      · have hc' : (scriptAt sc.ctl i 0 == 1) = false := by simpa using hc
        simp only [hc', Bool.false_eq_true, if_false, List.length_cons]
        have := expectedCount_go sc e xs (i + 1) n f (by simp at h; omega) (by simpa using hf)
        omega

theorem loopElems_count (sc : LoopScript) (e : Node) (es : List Val) :
    (loopElems sc e es 0).length = expectedCount sc es.length := by
  have := expectedCount_go sc e es 0 es.length es.length (by simp) (Nat.le_refl _)
  unfold expectedCount
  omega

end Inspector.C17
