/-
Driver/Parse.lean — reader for the line protocol (DESIGN.md Appendix C). `partial` is confined to this
directory; nothing here is used in a theorem.
-/
import InspectorModel.ForDriver
namespace Inspector.Driver
open Inspector

def untok (s : String) : String :=
  if s == "-" then "" else s.replace "%20" " "

def parseInfo : List String → Option (Info × List String)
  | typn :: typu :: name :: pkg :: flags :: rest =>
    let fl := flags.toList
    let bit (i : Nat) : Bool := fl.getD i '0' == '1'
    some ({ typn := untok typn, typu := untok typu, name := untok name, pkg := untok pkg,
            ptr := bit 0, hasb := bit 1, hasc := bit 2 }, rest)
  | _ => none

partial def parseNode : List String → Option (Node × List String)
  | "B" :: rest => do
    let (i, rest) ← parseInfo rest
    pure (.basic i, rest)
  | "S" :: rest => do
    let (i, rest) ← parseInfo rest
    match rest with
    | n :: rest =>
      let cnt ← n.toNat?
      let rec go (k : Nat) (acc : List Node) (toks : List String) : Option (List Node × List String) :=
        if k == 0 then some (acc.reverse, toks) else do
          let (c, toks) ← parseNode toks
          go (k - 1) (c :: acc) toks
      let (ch, rest) ← go cnt [] rest
      pure (.struct i ch, rest)
    | [] => none
  | "M" :: rest => do
    let (i, rest) ← parseInfo rest
    let (k, rest) ← parseNode rest
    let (v, rest) ← parseNode rest
    pure (.map i k v, rest)
  | "L" :: rest => do
    let (i, rest) ← parseInfo rest
    let (e, rest) ← parseNode rest
    pure (.slice i e, rest)
  | _ => none

def splitColon (s : String) : List String := s.splitOn ":"

partial def parseVal : List String → Option (Val × List String)
  | [] => none
  | tok :: rest =>
    let body := (tok.drop 1).toString
    match tok.toList.head? with
    | some 'b' => some (.bool (body == "1"), rest)
    | some 'i' => do pure (.int (← body.toInt?), rest)
    | some 'u' => do pure (.uint (← body.toNat?), rest)
    | some 'f' => do pure (.float (← body.toInt?), rest)
    | some 's' => do pure (.str (← bytesOfHex body), rest)
    | some 'y' =>
      if body == "n" then some (.bytes true [] 0, rest) else
      match splitColon body with
      | [c, h] => do pure (.bytes false (← bytesOfHex h) (← c.toNat?), rest)
      | _ => none
    | some 'S' => do
      let n ← body.toNat?
      let (fs, rest) ← parseVals n rest
      pure (.struct fs, rest)
    | some 'L' =>
      if body == "n" then some (.slice true [] 0, rest) else
      match splitColon body with
      | [n, c] => do
        let (es, rest) ← parseVals (← n.toNat?) rest
        pure (.slice false es (← c.toNat?), rest)
      | _ => none
    | some 'M' =>
      if body == "n" then some (.map true [] [], rest) else do
        let n ← body.toNat?
        let rec go (k : Nat) (ks vs : List Val) (toks : List String) : Option (List Val × List Val × List String) :=
          if k == 0 then some (ks.reverse, vs.reverse, toks) else do
            let (key, toks) ← parseVal toks
            let (v, toks) ← parseVal toks
            go (k - 1) (key :: ks) (v :: vs) toks
        let (ks, vs, rest) ← go n [] [] rest
        pure (.map false ks vs, rest)
    | some 'P' =>
      if body == "n" then some (.nilptr, rest) else do
        let (v, rest) ← parseVal rest
        pure (.ptr v, rest)
    | _ => none
where
  parseVals (n : Nat) (toks : List String) : Option (List Val × List String) :=
    let rec go (k : Nat) (acc : List Val) (toks : List String) : Option (List Val × List String) :=
      if k == 0 then some (acc.reverse, toks) else do
        let (v, toks) ← parseVal toks
        go (k - 1) (v :: acc) toks
    go n [] toks

/-- The harness cannot tell `[]uint8` from `[]byte` (they are one Go type); the emitter can (by the
spelling). Re-shape byte strings into element lists where the node says "slice of uint8". -/
partial def coerce (n : Node) (v : Val) : Val :=
  match n, v with
  | _, .ptr w => .ptr (coerce (n.withPtr false) w)
  | .slice i e, .bytes isNil d c =>
    if i.typn == "[]byte" then v
    else Val.slice isNil (d.map fun b => coerce e (Val.uint b.toNat)) c
  | .slice i e, .slice nl es c => if i.typn == "[]byte" then v else Val.slice nl (es.map (coerce e)) c
  | .struct _ ch, .struct fs => Val.struct ((ch.zip fs).map fun (c, f) => coerce c f)
  | .map _ k mv, .map nl ks vs => Val.map nl (ks.map (coerce k)) (vs.map (coerce mv))
  | _, _ => v

def parseSeg (tok : String) : Option Seg :=
  match splitColon tok with
  | [h, pi, pu, pf, pb] => do
    let text ← bytesOfHex (h.drop 1).toString
    let pi' : Option Int := if pi == "e" then none else pi.toInt?
    let pu' : Option Nat := if pu == "e" then none else pu.toNat?
    let pf' : PF := if pf == "e" then .err else if pf == "x" then .inexact else
      match pf.toInt? with | some fx => .ok fx | none => .inexact
    let pb' : Option Bool := if pb == "e" then none else some (pb == "1")
    pure { text := text, pi := pi', pu := pu', pf := pf', pb := pb' }
  | _ => none

def parsePath : List String → Option (List Seg × List String)
  | n :: rest => do
    let cnt ← n.toNat?
    let segs ← (rest.take cnt).mapM parseSeg
    if segs.length == cnt then pure (segs, rest.drop cnt) else none
  | [] => none

def parseForm : String → Option Form
  | "v" => some .val
  | "p" => some .ptr
  | "pp" => some .ptrptr
  | "pn" => some .nilPtr
  | "ppn" => some .ptrNilPtr
  | "ppnn" => some .nilPtrPtr
  | "nil" => some .untypedNil
  | "foreign" => some .foreign
  | _ => none

/-- `none` | `err` | `panic` | `some <shape> <val…>` as printed by the harness. -/
def parseGetOut : List String → Option GetOut
  | ["none"] => some .none
  | ["err"] => some .err
  | ["panic"] => some .panic
  | "some" :: shape :: rest => do
    let (v, _) ← parseVal rest
    pure (.some shape v.strip)
  | _ => none

mutual
partial def showVal : Val → String
  | .bool b => if b then "b1" else "b0"
  | .int i => s!"i{i}"
  | .uint n => s!"u{n}"
  | .float fx => s!"f{fx}"
  | .str s => "s" ++ hexOfBytes s
  | .bytes true _ _ => "yn"
  | .bytes false d c => s!"y{c}:" ++ hexOfBytes d
  | .struct fs => s!"S{fs.length}" ++ showVals fs
  | .map true _ _ => "Mn"
  | .map false ks vs => s!"M{ks.length}" ++ String.join ((ks.zip vs).map fun (k, v) => " " ++ showVal k ++ " " ++ showVal v)
  | .slice true _ _ => "Ln"
  | .slice false es c => s!"L{es.length}:{c}" ++ showVals es
  | .nilptr => "Pn"
  | .ptr v => "P " ++ showVal v
partial def showVals (vs : List Val) : String := String.join (vs.map fun v => " " ++ showVal v)
end

/-- Canonical form for comparisons: map entries sorted by the printed key. -/
partial def canon : Val → Val
  | .struct fs => .struct (fs.map canon)
  | .slice nl es c => .slice nl (es.map canon) c
  | .ptr w => .ptr (canon w)
  | .map nl ks vs =>
    let es := ((ks.map canon).zip (vs.map canon)).toArray.qsort (fun a b =>
      let ka := showVal a.1; let kb := showVal b.1
      ka < kb || (ka == kb && showVal a.2 < showVal b.2))
    .map nl (es.toList.map (·.1)) (es.toList.map (·.2))
  | v => v

def showGetOut : GetOut → String
  | .none => "none"
  | .err => "err"
  | .panic => "panic"
  | .some sh v => "some " ++ sh ++ " " ++ showVal v

end Inspector.Driver
