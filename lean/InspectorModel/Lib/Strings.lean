/-
Lib/Strings.lean — model of StringsInspector (strings.go) over `[]string` (isB = false) and `[][]byte`
(isB = true). A sequence is a `Val.slice` whose elements are `.str` resp. `.bytes`.
-/
import InspectorModel.Gen.Cmp
import InspectorModel.Gen.LC
import InspectorModel.Gen.Loop
import InspectorModel.Gen.DEQ
import InspectorModel.Gen.Set
import InspectorModel.Gen.Reset
import InspectorModel.Lib.Assign
namespace Inspector

/-- Defect switches of the hand-written runtime (same convention as `GenCfg`). -/
structure LibCfg where
  /-- strings.go:74,83: `if len(p) > 0` — Set with the empty text is a no-op. -/
  stringsSetEmptyNoop : Bool := false   -- repaired in /repo (fix: commit), see known_findings.json
  /-- strings.go:181-222: every arm requires both lengths > 0 — two empty sequences are unequal. -/
  stringsEmptyUnequal : Bool := false   -- repaired in /repo (fix: commit), see known_findings.json
  /-- strings.go:110-131: an index outside the range compares the empty string instead of leaving the result alone. -/
  stringsCmpOutOfRange : Bool := false   -- repaired in /repo (fix: commit), see known_findings.json
  /-- a typed-nil pointer argument is dereferenced by `sp` -/
  stringsNilPtrPanics : Bool := false   -- repaired in /repo (fix: StringsInspector dereferenced a typed-nil pointer)
  /-- strings.go: Set dereferences a nil `*string` / `*[]byte` value. -/
  stringsNilSrcPanics : Bool := false   -- repaired in /repo (fix: StringsInspector.Set dereferenced a nil *string / *[]byte value)
  /-- reflect.go: `v.Index(idx)` without a bounds test — ReflectInspector.Get panics on a slice index out of range. -/
  reflectIndexPanics : Bool := false   -- repaired in /repo (fix: ReflectInspector.Get panicked on a slice index out of range)
  /-- stranymap.go:216-221: Capacity with a non-empty path recurses into Length. -/
  samapCapIsLen : Bool := false   -- repaired in /repo (fix: commit), see known_findings.json
  /-- stranymap.go:223-249 (`indir1` / `indir2`), 60-66, 184-190, 203-206, 288-295: a nil `*map[string]any` /
  `**map[string]any` on the way, and a typed-nil `*string` / `*[]byte` leaf or assigned value, are dereferenced.
  Off: the panic test is skipped — a nil pointer to a map behaves like a nil map, a nil text pointer is left /
  stored as it is. -/
  samapNilPtrPanics : Bool := false   -- repaired in /repo (fix: StringAnyMapInspector dereferenced nil pointers)
  /-- static.go:851-879: Reset of *string / *[]byte assigns to the local variable. -/
  staticResetTextLost : Bool := false   -- repaired in /repo (fix: commit), see known_findings.json
  /-- static.go:716-879: indInt/indUint truncate floats: DeepEqual(1, 1.5) but not DeepEqual(1.5, 1). -/
  staticDeqAsymmetric : Bool := false   -- repaired in /repo (fix: StaticInspector.DeepEqual of an integer and a float depended on the argument order)
  /-- static.go: indString ↔ indBytes recurse forever on a non-text operand. -/
  staticDeqDiverges : Bool := false   -- repaired in /repo (fix: commit), see known_findings.json
  /-- static.go: typed-nil pointers are dereferenced. -/
  staticNilPtrPanics : Bool := false   -- repaired in /repo (fix: StaticInspector dereferenced a typed-nil pointer)
deriving Repr, Inhabited

def LibCfg.repo : LibCfg := {}
/-- The library as it was at the pinned commit (1c76ae3), before the `fix:` commits in /repo: every listed
defect present. The `repo_not_correct*` theorems of the repaired classes are stated about it. -/
def LibCfg.original : LibCfg where
  stringsSetEmptyNoop := true
  stringsEmptyUnequal := true
  stringsCmpOutOfRange := true
  stringsNilPtrPanics := true
  stringsNilSrcPanics := true
  reflectIndexPanics := true
  samapCapIsLen := true
  samapNilPtrPanics := true
  staticResetTextLost := true
  staticDeqAsymmetric := true
  staticDeqDiverges := true
  staticNilPtrPanics := true
def LibCfg.fixed : LibCfg where
  stringsSetEmptyNoop := false
  stringsEmptyUnequal := false
  stringsCmpOutOfRange := false
  stringsNilPtrPanics := false
  stringsNilSrcPanics := false
  reflectIndexPanics := false
  samapCapIsLen := false
  samapNilPtrPanics := false
  staticResetTextLost := false
  staticDeqAsymmetric := false
  staticDeqDiverges := false
  staticNilPtrPanics := false

def elemText : Val → Bytes
  | .str s => s
  | .bytes _ d _ => d
  | _ => []

def seqElems : Val → List Val
  | .slice _ es _ => es
  | _ => []

def seqCap : Val → Nat
  | .slice _ _ c => c
  | _ => 0

/-- What `sp(x)` yields: the sequence, a refusal (`ok = false`) or a nil dereference. -/
inductive SpR
  | seq | refused | panic

def spOf (cfg : LibCfg) : Form → SpR
  | .val | .ptr => .seq
  | .nilPtr => if cfg.stringsNilPtrPanics then .panic else .refused
  | _ => .refused                 -- **[]string, untyped nil, foreign: the default arm

/-- Index of a one-segment path: `strconv.Atoi`. `none`: error. -/
def atoiSeg (s : Seg) : Option Int := atoiM s.text

def inRangeIdx (idx : Int) (n : Nat) : Bool := decide (0 ≤ idx) && decide (idx < n) && n > 0

def stringsGet (cfg : LibCfg) (isB : Bool) (f : Form) (v : Val) (p : List Seg) : GetOut :=
  match p with
  | [s] =>
    (match spOf cfg f with
     | .panic => .panic
     | .refused => .none
     | .seq =>
       match atoiSeg s with
       | none => .err
       | some idx =>
         if inRangeIdx idx (seqElems v).length then
           (match nth? (seqElems v) idx.toNat with
            | some e => .some (if isB then "Y" else "string") e
            | none => .none)
         else .none)
  | _ => .none

def strCmpSix (op : Op) (l r : Bytes) : CmpOut :=
  if op == 2 then .set (!(l == r))
  else if op == 1 then .set (l == r)
  else if op == 3 then .set (bytesLt r l)
  else if op == 4 then .set (!bytesLt l r)
  else if op == 5 then .set (bytesLt l r)
  else if op == 6 then .set (!bytesLt r l)
  else .untouched

def stringsCmp (cfg : LibCfg) (f : Form) (v : Val) (p : List Seg) (op : Op) (right : Seg) : CmpOut :=
  match p with
  | [s] =>
    (match spOf cfg f with
     | .panic => .panic
     | .refused => .untouched
     | .seq =>
       match atoiSeg s with
       | none => .err
       | some idx =>
         if idx < 0 then .untouched
         else if inRangeIdx idx (seqElems v).length then
           (match nth? (seqElems v) idx.toNat with
            | some e => strCmpSix op (elemText e) right.text
            | none => .untouched)
         else if cfg.stringsCmpOutOfRange then strCmpSix op [] right.text else .untouched)
  | _ => .untouched

/-- The text a value passed to Set denotes for this representation (`none`: type not accepted → no-op;
`some none`: nil pointer dereference). -/
def setText (isB : Bool) (src : Src) : Option (Option Bytes) :=
  let want := if isB then DynKind.bytes else DynKind.string
  if src.kind != want then none else
  match src.v with
  | .nilptr => some none
  | .str t => some (some t)
  | .bytes _ d _ => some (some d)
  | _ => none

def stringsSet (cfg : LibCfg) (isB : Bool) (f : Form) (v : Val) (p : List Seg) (src : Src) : SetOut :=
  match p with
  | [s] =>
    (match spOf cfg f with
     | .panic => .panic
     | .refused => .ok v
     | .seq =>
       match atoiSeg s with
       | none => .err v
       | some idx =>
         if !inRangeIdx idx (seqElems v).length then .ok v else
         match setText isB src with
         | none => .ok v
         | some none => if cfg.stringsNilSrcPanics then .panic else .ok v
         | some (some t) =>
           if t.isEmpty && cfg.stringsSetEmptyNoop then .ok v
           else
             let e : Val := if isB then .bytes false t t.length else .str t
             (match v with
              | .slice nl es c => .ok (.slice nl (replaceNth es idx.toNat e) c)
              | _ => .ok v))
  | _ => .ok v

def stringsLoop (cfg : LibCfg) (sc : LoopScript) (isB : Bool) (f : Form) (v : Val) (p : List Seg) : LoopR :=
  if !p.isEmpty then ⟨[], .done⟩ else
  match spOf cfg f with
  | .panic => ⟨[], .panic⟩
  | .refused => ⟨[], .done⟩
  | .seq =>
    let e : Node := if isB then .slice { typn := "[]byte" } (.basic { typn := "byte", typu := "byte" })
                    else .basic { typn := "string", typu := "string" }
    ⟨loopElems sc e (seqElems v) 0, .done⟩

/-- DeepEqual across representations (values and pointers). -/
def stringsDeq (cfg : LibCfg) (fl fr : Form) (l r : Val) : DeqOut :=
  match spOf cfg fl, spOf cfg fr with
  | .panic, _ => .panic
  | .refused, _ => .f
  | .seq, .panic => .panic
  | .seq, .refused => .f
  | .seq, .seq =>
    let a := (seqElems l).map elemText
    let b := (seqElems r).map elemText
    if a.isEmpty || b.isEmpty then
      (if cfg.stringsEmptyUnequal then .f else (if a.isEmpty && b.isEmpty then .t else .f))
    else if a == b then .t else .f

def stringsLc (cfg : LibCfg) (isCap isB : Bool) (f : Form) (v : Val) (p : List Seg) : LcOut :=
  match spOf cfg f with
  | .panic => .panic
  | .refused => .untouched
  | .seq =>
    let es := seqElems v
    match p with
    | [s] =>
      (match atoiSeg s with
       | none => .err
       | some idx =>
         if inRangeIdx idx es.length && (!isCap || isB) then
           (match nth? es idx.toNat with
            | some e => .val (lenOf isCap e)
            | none => .untouched)
         else .untouched)
    | _ =>
      if es.isEmpty then .untouched
      else if isCap then (if isB then .val (seqCap v) else .untouched)
      else .val es.length

/-- CopyTo: copies of the source elements (in the destination's representation) appended to `dst`. -/
def stringsCopyTo (cfg : LibCfg) (dstIsB : Bool) (fs fd : Form) (src dst : Val) : CopyOut :=
  match spOf cfg fs with
  | .panic => .panic
  | .refused => .unsupported
  | .seq =>
    match fd with
    | .val => .mustPointer
    | .ptr =>
      let conv (e : Val) : Val := if dstIsB then .bytes false (elemText e) (elemText e).length else .str (elemText e)
      let es := seqElems dst ++ (seqElems src).map conv
      .ok (.slice false es es.length) 0
    | .nilPtr => if (seqElems src).isEmpty then .ok dst 0 else .panic
    | _ => .unsupported

def stringsReset (cfg : LibCfg) (f : Form) (v : Val) : ResetOut :=
  match f with
  | .val => .mustPointer
  | .ptr => (match v with | .slice nl _ c => .ok (.slice nl [] c) | x => .ok x)
  -- `*ss = (*ss)[:0]` through a typed-nil pointer; repaired (fix: StringsInspector.Reset dereferenced a typed-nil …)
  | .nilPtr => if cfg.stringsNilPtrPanics then .panic else .ok v
  | _ => .ok v           -- no arm: nil error, nothing happens

end Inspector
