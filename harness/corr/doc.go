// Package corr is the correspondence harness library.
package corr

import _ "github.com/koykov/inspector"
