#!/bin/sh
# trymut.sh <patch> <property>... — applies a seeded change to /repo, runs the checks, reverts. Development aid.
cd "$(dirname "$0")/.." || exit 2
patch=$1; shift
git -C /repo apply "$patch" || { echo "patch does not apply"; exit 2; }
for p in "$@"; do
  out=$(python3 scripts/check.py $p ${TIER:-quick} 2>&1); rc=$?
  echo "rc=$rc $(echo "$out" | grep -c VIOLATION) violation lines; $(echo "$out" | tail -1 | cut -c1-160)"
  echo "$out" | grep VIOLATION | head -2
done
git -C /repo checkout -- . 
git -C /repo status --short | grep -v inspc/inspc
