/-
Gen/Select.lean — C14: which parsed types get an inspector file, how the file is named, the registry,
and `uncompilable`: a model of the emitter's type discipline — for which type trees the emitted Go
does not compile, and why (each reason is one known-finding class of C14).
-/
import InspectorModel.Core.Types
namespace Inspector

/-- File name of a type's inspector (compiler.go:177). -/
def insFileName (typeName : String) : String := typeName.toLower ++ "_ins.go"

/-- parser_ast.go:52-81 / parser_loader.go:11-55: named struct, map and slice types that are exported,
not black-listed and not seen before get a file. `seen` is the list of names already taken. -/
def selectTypes (blacklist : List String) : List String → List String → List String
  | [], _ => []
  | n :: rest, seen =>
    if seen.contains n || blacklist.contains n then selectTypes blacklist rest seen
    else n :: selectTypes blacklist rest (n :: seen)

/-- The registry (registry.go): last registration under a name wins. -/
def registryGet {α : Type} : List (String × α) → String → Option α
  | [], _ => none
  | (k, v) :: rest, name => if k == name then some v else registryGet rest name

def registryPut {α : Type} (r : List (String × α)) (name : String) (v : α) : List (String × α) := (name, v) :: r

def isIntName (t : String) : Bool :=
  t == "int" || t == "int8" || t == "int16" || t == "int32" || t == "int64" ||
  t == "uint" || t == "uint8" || t == "uint16" || t == "uint32" || t == "uint64" || t == "byte"

/-- Rules of the compilability model that belong to defects of the emitter (each one known-finding class of C14):
`true` = the rule applies (the emitter at the pinned commit), `false` = repaired in /repo. -/
structure EmitRules where
  /-- a struct held by value must not have pointer-to-scalar fields (DeepEqual's nil test named the struct) -/
  valueStruct : Bool := false
  /-- a map looped over must not be keyed by `bool` (`append(*buf[:0], …)`: `cannot slice buf`) -/
  boolKey : Bool := false   -- repaired in /repo (fix: Loop over a map keyed by bool did not compile)
  /-- a type whose only byte slices are `*[]byte` lacks the `bytes` import -/
  ptrBytesAlone : Bool := false
deriving Repr, Inhabited

def EmitRules.current : EmitRules := {}
def EmitRules.original : EmitRules := { valueStruct := true, boolKey := true, ptrBytesAlone := true }

/-- Key types the emitted Loop can render and the emitted lookups can convert (compiler.go:785-800, 842-849). -/
def keyClass (r : EmitRules) (k : Node) (looped : Bool) : Option String :=
  if !isBuiltinName k.typn then some "named-map-key"           -- `var k NStr`: the type name is emitted unqualified
  else if r.boolKey && looped && k.typn == "bool" then some "bool-map-key"   -- `*buf[:0]`
  else if looped && k.typn == "byte" then some "byte-map-key"   -- `x2bytes.AnyToBytes` does not exist
  else none

mutual
/-- `r.valueStruct` (the original emitter, finding `uncompilable-ptr-scalar-field-in-struct-value`): a struct used by value
must not have pointer-to-scalar / `*[]byte` fields — DeepEqual emitted `lx2 != nil` on the struct value
(compiler.go:561-564 with 572-582). Repaired in /repo by `fix: DeepEqual tests the nil-ness of pointer-to-scalar
fields on the field, not on its parent` (the nil test now names the field): with the rule switched off the shape compiles. -/
def fieldsClass (r : EmitRules) (byValueNested : Bool) : List Node → Option String
  | [] => none
  | ch :: rest =>
    match fieldClass r byValueNested ch with
    | some c => some c
    | none => fieldsClass r byValueNested rest

/-- A struct field. `byValueNested`: the enclosing struct is itself held by value below the root. -/
def fieldClass (r : EmitRules) (byValueNested : Bool) (ch : Node) : Option String :=
  match ch with
  | .basic i =>
    if byValueNested && i.ptr then some "ptr-scalar-field-in-struct-value"
    else if isBuiltinName i.typn then none
    else if isIntName i.typu then none                                   -- named integers convert with T(t)
    else if i.typu == "bool" && i.ptr then none                          -- only the nil comparison is emitted
    else some "named-scalar"                                             -- NBool: `>` on bool; NFloat: EqualFloat64(NFloat…); NStr: string ↔ NStr
  | .struct i chld => fieldsClass r (r.valueStruct && !i.ptr) chld
  | .slice i e =>
    if i.typn == "[]byte" then (if byValueNested && i.ptr then some "ptr-scalar-field-in-struct-value" else none)
    else elemClass r e
  | .map _ k v =>
    match keyClass r k true with
    | some c => some c
    | none => valClass r v

/-- A slice element. -/
def elemClass (r : EmitRules) (e : Node) : Option String :=
  match e with
  | .basic i => if isBuiltinName i.typn then none else some "named-scalar-element"   -- `decl.x0`, `&pkg.x0`
  | .struct i chld => fieldsClass r (r.valueStruct && !i.ptr) chld
  | .slice i _ => if i.typn == "[]byte" then some "bytes-element" else some "collection-element"   -- `lx.` + empty name; `len((x))` on a pointer
  | .map _ _ _ => some "collection-element"

/-- A map value. -/
def valClass (r : EmitRules) (v : Node) : Option String :=
  match v with
  | .basic i => if isBuiltinName i.typn then none else some "named-scalar-element"
  | .struct i chld => fieldsClass r (r.valueStruct && !i.ptr) chld
  | .slice i e =>
    if i.typn == "[]byte" then some "bytes-element"
    else if i.ptr then some "ptr-collection-element"
    else (match e with | .basic ei => if isBuiltinName ei.typn then none else some "named-scalar-element" | _ => some "collection-element")
  | .map i k vv =>
    if i.ptr then some "ptr-collection-element"
    else match keyClass r k false with
      | some c => some c
      | none => (match vv with | .basic vi => if isBuiltinName vi.typn then none else some "named-scalar-element" | _ => some "collection-element")
end

mutual
/-- Does the tree hold a `[]byte` node behind a pointer (`wantPtr`) / held plainly (`!wantPtr`)? -/
def anyBytes (wantPtr : Bool) : Node → Bool
  | .basic _ => false
  | .struct _ chld => anyBytesL wantPtr chld
  | .map _ k v => anyBytes wantPtr k || anyBytes wantPtr v
  | .slice i e => if i.typn == "[]byte" then i.ptr == wantPtr else anyBytes wantPtr e
def anyBytesL (wantPtr : Bool) : List Node → Bool
  | [] => false
  | n :: ns => anyBytes wantPtr n || anyBytesL wantPtr ns
end

/-- The type discipline of the emitted code, shape by shape (each reason is one known-finding class of C14). -/
def uncompilableShape (r : EmitRules) (root : Node) : Option String :=
  match root with
  | .struct _ chld => fieldsClass r false chld
  | .slice _ e => elemClass r e
  | .map _ k v => (match keyClass r k true with | some c => some c | none => valClass r v)
  | .basic _ => some "not-eligible"

/-- `none`: the inspector emitted for this root type compiles; `some c`: it does not, for reason `c`.
`ptrBytesRule` (the original emitter, finding `uncompilable-ptr-bytes-alone`): on top of the per-shape
discipline one file-level rule — DeepEqual emits `bytes.Equal` for every `[]byte` node, pointer or not, but
the `bytes` import was only registered by the compare snippet of a *plain* `[]byte` (writeCmp returns early
for pointer nodes): a type whose only byte slices are `*[]byte` did not compile. Repaired in /repo (`fix: the
inspector of a type whose only byte slices are *[]byte did not compile`): the equality emitter registers the import. -/
def uncompilableWith (r : EmitRules) (root : Node) : Option String :=
  match uncompilableShape r root with
  | some c => some c
  | none => if r.ptrBytesAlone && anyBytes true root && !anyBytes false root then some "ptr-bytes-alone" else none

/-- The emitter as it is. -/
def uncompilable (root : Node) : Option String := uncompilableWith EmitRules.current root
/-- The emitter at the pinned commit. -/
def uncompilableOriginal (root : Node) : Option String := uncompilableWith EmitRules.original root

end Inspector
