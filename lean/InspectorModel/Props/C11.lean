/-
Props/C11.lean — property theorems for C11.
-/
import InspectorModel.Gen.DEQ
import InspectorModel.Spec.StructEq
namespace Inspector.C11

/-- The decision function of options.go with nil options: every field is checked. -/
theorem mustCheck_nil (path : String) : deqMustCheck path none = true := rfl

end Inspector.C11
