/-
Spec/LcSpec.lean — C10's reading of Length / Capacity.
-/
import InspectorModel.Spec.Nav
import InspectorModel.Gen.LC
namespace Inspector

/-- What Length (isCap = false) or Capacity (isCap = true) must store for an existing element;
`none`: the property says nothing (scalars, structs; Capacity of strings and maps). -/
def lcExpected (isCap : Bool) (res : Res) : Option Nat :=
  match res.val.strip with
  | .nilptr => some 0
  | .str s => if isCap then none else some s.length
  | .bytes _ d c => some (if isCap then c else d.length)
  | .slice _ es c => some (if isCap then c else es.length)
  | .map _ ks _ => if isCap then none else some ks.length
  | _ => none

/-- Acceptance given where navigation ended. -/
def lcAcceptsNav (isCap : Bool) (r : NavR) (o : LcOut) : Bool :=
  match r with
  | .found res via =>
    (match lcExpected isCap res with
     | some k => o == .val k
     | none => true) || (via && o == .val 0)
  | .miss _ => o == .val 0
  -- "the only error is for a segment that cannot be parsed": an error is allowed here, and only here
  | .perr _ => o == .err || o == .val 0
  | .unspec => true

def lcAccepts (isCap : Bool) (n : Node) (v : Val) (p : List Seg) (o : LcOut) : Bool :=
  lcAcceptsNav isCap (nav n v p) o

end Inspector
