#!/bin/sh
# sweep_seeded.sh [ids…] — development aid: applies every seeded change in turn, runs the quick check of the
# property it was written to break (meta.json "breaks"), reverts, and prints one line per change.
cd "$(dirname "$0")/.." || exit 2
ids=${*:-$(ls seeded)}
for id in $ids; do
  [ -f seeded/$id/patch.diff ] || continue
  prop=$(python3 -c "import json;print(json.load(open('seeded/$id/meta.json')).get('breaks','').split()[0].strip(','))")
  if ! git -C /repo apply "$PWD/seeded/$id/patch.diff" 2>/dev/null; then echo "$id ($prop): PATCH DOES NOT APPLY"; continue; fi
  out=$(python3 scripts/check.py $prop quick 2>&1); rc=$?
  echo "$id ($prop): rc=$rc $(echo "$out" | grep -c VIOLATION) violation lines; $(echo "$out" | tail -1 | cut -c1-150)"
  git -C /repo reset -q --hard HEAD; git -C /repo clean -fdq -e inspc/inspc
done
