/-
Props/C13.lean — property theorems for C13 (generation is deterministic and target-independent).
-/
import InspectorModel.Gen.Parsers
namespace Inspector.C13

/-- Rendering a type whose tokens contain no package-qualified name does not depend on whether a
qualifier was dropped before: `strings.Replace(…, pkgDot, "", 1)` is then the identity. -/
theorem render_no_qual (p : Pkg) (ts : List TTok) (h : ∀ t ∈ ts, ∃ s, t = .lit s) (a b : Bool) :
    renderDropFirst p ts a = renderDropFirst p ts b := by
  induction ts generalizing a b with
  | nil => rfl
  | cons t rest ih =>
    obtain ⟨s, hs⟩ := h t (by simp)
    subst hs
    simp only [renderDropFirst]
    rw [ih (fun t ht => h t (by simp [ht])) a b]

end Inspector.C13
