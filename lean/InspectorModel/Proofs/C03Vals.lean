/-
Proofs/C03Vals.lean — facts about the side conditions of C03 (`ValOK`, depth) on sub-values, zero values
and auto-created containers; keys are fixed points of `dropCaps`.
-/
import InspectorModel.Proofs.C03Leaf
set_option linter.unusedSimpArgs false
set_option linter.unusedVariables false
namespace Inspector.C03

/-! ### ValOK on parts -/

theorem ValOKs_mem (vs : List Val) (x : Val) (h : ValOKs vs = true) (hm : x ∈ vs) : ValOK x = true := by
  induction vs with
  | nil => cases hm
  | cons v vs ih =>
    simp only [ValOKs, Bool.and_eq_true] at h
    cases hm with
    | head => exact h.1
    | tail _ hm => exact ih h.2 hm

theorem ValOK_struct (fs : List Val) : ValOK (.struct fs) = ValOKs fs := by simp [ValOK]
theorem ValOK_ptr (w : Val) : ValOK (.ptr w) = ValOK w := by simp [ValOK]

theorem ValOK_deref (b : Bool) (v : Val) (h : ValOK v = true) : ValOK (derefIf b v) = true := by
  unfold derefIf
  split
  · split
    · simpa [ValOK] using h
    · exact h
  · exact h

mutual
theorem ValOK_zeroVal : ∀ (n : Node), ValOK (zeroVal n) = true
  | .basic i => by
    unfold zeroVal
    split
    · simp [ValOK]
    · split
      · rename_i k _; cases k <;> simp [zeroOfKind, ValOK]
      · simp [ValOK]
  | .struct i ch => by
    unfold zeroVal
    split
    · simp [ValOK]
    · simp [ValOK, ValOKs_zeroVals ch]
  | .map i _ _ => by
    unfold zeroVal
    split <;> simp [ValOK, keysDistinct, ValOKs]
  | .slice i _ => by
    unfold zeroVal
    split
    · simp [ValOK]
    · split <;> simp [ValOK, ValOKs]
theorem ValOKs_zeroVals : ∀ (ns : List Node), ValOKs (zeroVals ns) = true
  | [] => by simp [zeroVals, ValOKs]
  | n :: ns => by simp [zeroVals, ValOKs, ValOK_zeroVal n, ValOKs_zeroVals ns]
end

/-! ### depth of zero values -/

theorem ndepth_withPtr (n : Node) (b : Bool) : ndepth (n.withPtr b) = ndepth n := by
  cases n <;> simp [Node.withPtr, ndepth]

mutual
theorem vdepth_zeroVal : ∀ (n : Node), vdepth (zeroVal n) + 1 ≤ ndepth n
  | .basic i => by
    unfold zeroVal
    split
    · simp [vdepth, ndepth]
    · split
      · rename_i k _; cases k <;> simp [zeroOfKind, vdepth, ndepth]
      · simp [vdepth, ndepth]
  | .struct i ch => by
    unfold zeroVal
    split
    · simp only [vdepth, ndepth]; omega
    · have := vdepths_zeroVals ch
      simp only [vdepth, ndepth]; omega
  | .map i _ _ => by
    unfold zeroVal
    split <;> simp only [vdepth, vdepths, ndepth] <;> omega
  | .slice i _ => by
    unfold zeroVal
    split
    · simp only [vdepth, ndepth]; omega
    · split <;> simp only [vdepth, vdepths, ndepth] <;> omega
theorem vdepths_zeroVals : ∀ (ns : List Node), vdepths (zeroVals ns) ≤ ndepths ns
  | [] => by simp [zeroVals, vdepths]
  | n :: ns => by
    have h1 := vdepth_zeroVal n
    have h2 := vdepths_zeroVals ns
    simp only [zeroVals, vdepths, ndepths]; omega
end

theorem ndepth_mem (chld : List Node) (ch : Node) (h : ch ∈ chld) : ndepth ch ≤ ndepths chld := by
  induction chld with
  | nil => cases h
  | cons c cs ih =>
    simp only [ndepths]
    cases h with
    | head => omega
    | tail _ h => have := ih h; omega

/-! ### keys -/

theorem D_of_WT_basic_np (i : Info) (v : Val) (hp : i.ptr = false) (h : WT (.basic i) v = true) :
    D v = v ∧ isPtrVal v = false ∧ vdepth v = 1 := by
  cases v <;> simp_all [WT, D, Node.ptr, Node.info, isPtrVal, vdepth]
  all_goals (cases hk : kindOfName i.typu <;> simp [hk] at h; rename_i k; cases k <;> simp [wtScalar] at h)

theorem D_of_WT_basic (i : Info) (v : Val) (h : WT (.basic i) v = true) : D v = v := by
  cases v with
  | ptr w =>
    rw [WT_ptr] at h
    simp only [Bool.and_eq_true] at h
    rw [withPtr_basic] at h
    simp [D, (D_of_WT_basic_np _ w rfl h.2).1]
  | nilptr => simp [D]
  | _ =>
    have hp : i.ptr = false := by
      cases hp : i.ptr
      · rfl
      · simp [WT, hp] at h
    exact (D_of_WT_basic_np i _ hp h).1

theorem Ds_of_WTall_basic (i : Info) (ks : List Val) (h : WTall (.basic i) ks = true) : Ds ks = ks := by
  induction ks with
  | nil => rfl
  | cons k ks ih =>
    simp only [WTall, Bool.and_eq_true] at h
    simp [Ds, D_of_WT_basic i k h.1, ih h.2]

theorem KeysNoDup_of (i : Info) (ks : List Val) (hp : i.ptr = false) (h : WTall (.basic i) ks = true)
    (hd : keysDistinct ks = true) : KeysNoDup ks := by
  induction ks with
  | nil => trivial
  | cons k ks ih =>
    simp only [WTall, Bool.and_eq_true] at h
    simp only [keysDistinct, Bool.and_eq_true, Bool.or_eq_true] at hd
    refine ⟨?_, ih h.2 hd.2⟩
    have hnp := (D_of_WT_basic_np i k hp h.1).2.1
    rcases hd.1 with hd1 | hd1
    · rw [hnp] at hd1; cases hd1
    · intro k' hk'
      have := List.all_eq_true.mp hd1 k' hk'
      simpa using this

theorem convByName_ok_depth (t : String) (s : Seg) (key : Val) (h : convByName t s = some (.ok key)) :
    vdepth key = 1 := by
  unfold convByName at h
  split at h
  all_goals first
    | (cases h; done)
    | (injection h with h
       split at h
       all_goals first
         | (cases h; done)
         | (injection h with h; subst h; simp [vdepth, D]; done))
    | (injection h with h; injection h with h; subst h; simp [vdepth, D]; done)

theorem convSeg_ok_depth (tn tu : String) (s : Seg) (key : Val) (h : convSeg tn tu s = some (.ok key)) :
    vdepth key = 1 := by
  unfold convSeg at h
  split at h
  · rename_i c hc
    injection h with h; subst h
    exact convByName_ok_depth tn s key hc
  · exact convByName_ok_depth tu s key h

theorem specKey_key_scalar (k : Node) (s : Seg) (key : Val) (h : specKey k s = .key key) :
    vdepth key = 1 ∧ D key = key ∧ k.ptr = false := by
  unfold specKey at h
  split at h
  · repeat' split at h
    all_goals cases h
  · rename_i hp
    have hp' : k.ptr = false := by simpa using hp
    repeat' split at h
    all_goals first | (cases h; done) | (injection h with h; subst h; simp [vdepth, D, hp']; done)

/-! ### auto-created containers -/

theorem autoCreate_ValOK (ch : Node) (fv : Val) (h : ValOK fv = true) : ValOK (autoCreate ch fv) = true := by
  unfold autoCreate
  split
  · exact h
  · cases ch with
    | basic i => exact h
    | struct i c =>
      simp only []
      split
      · simp [ValOK, ValOK_zeroVal]
      · exact h
    | map i k v => simp only []; split <;> simp [ValOK, keysDistinct, ValOKs]
    | slice i e => simp only []; split <;> simp [ValOK, ValOKs]

theorem autoCreate_depth (ch : Node) (fv : Val) (B : Nat) (h : vdepth fv ≤ B) (hn : ndepth ch ≤ B) :
    vdepth (autoCreate ch fv) ≤ B := by
  unfold autoCreate
  split
  · exact h
  · cases ch with
    | basic i => exact h
    | struct i c =>
      simp only []
      split
      · have := vdepth_zeroVal ((Node.struct i c).withPtr false)
        rw [ndepth_withPtr] at this
        simp only [vdepth]; omega
      · exact h
    | map i k v =>
      simp only [ndepth] at hn
      simp only []; split <;> simp only [vdepth, vdepths] <;> omega
    | slice i e =>
      simp only [ndepth] at hn
      simp only []; split <;> simp only [vdepth, vdepths] <;> omega

theorem autoCreate_WT (ch : Node) (fv : Val) (hwf : NodeWF ch = true) (hl : ch.isLeaf = false) (h : WT ch fv = true) :
    WT ch (autoCreate ch fv) = true := by
  unfold autoCreate
  split
  · exact h
  · cases ch with
    | basic i => exact h
    | struct i c =>
      simp only []
      split
      · rename_i hp
        rw [WT_ptr]
        have hwf' : NodeWF ((Node.struct i c).withPtr false) = true := by simpa [Node.withPtr, NodeWF] using hwf
        simp [hp, WT_zeroVal _ hwf']
      · exact h
    | map i k v =>
      simp only []
      split
      · rename_i hp
        rw [WT_ptr]
        simp [hp, withPtr_map, WT, WTall]
      · rename_i hp
        simp [WT, WTall, hp]
    | slice i e =>
      simp only []
      have hb : (i.typn == "[]byte") = false := by simpa using hl
      have hb' : ¬ i.typn = "[]byte" := by simpa using hb
      split
      · rename_i hp
        rw [WT_ptr]
        simp [hp, withPtr_slice, WT, WTall, hb']
      · rename_i hp
        simp [WT, WTall, hp, hb']

end Inspector.C03
