/-
Props/C19.lean — property theorems for C19 (Assign/AssignBuf store the canonical conversion).
-/
import InspectorModel.Lib.Assign
import InspectorModel.Spec.Conv
namespace Inspector.C19

/-- A foreign source never converts. -/
theorem foreign_src_fails (a : AssignCfg) (dk : DynKind) (old : Val) (s : Src) (nb : Bool) (h : s.kind = .foreign) :
    (match assignM a dk old s nb with | .no => true | _ => false) = true := by
  cases dk <;> simp [assignM, h, DynKind.family, renderSrc]

end Inspector.C19
