/-
Driver/Main.lean — reads op records (inputs + the implementation's outcome), evaluates model, spec and
known-finding classes, prints one verdict per op:
  <line> agree | known <class> | dev-ok <model> | dev-viol <model> | kf-other <class> | skip <why>
-/
import InspectorModel
import Driver.Parse
import Std.Data.HashMap
open Inspector Inspector.Driver

structure St where
  types : Std.HashMap String Node := {}
  vals : Std.HashMap String Val := {}
  cfg : GenCfg := {}

def splitBar (line : String) : List (List String) :=
  (line.splitOn " | ").map fun part => (part.splitOn " ").filter (· ≠ "")

/-- Single-defect repairs of the repo configuration: (class name, configuration with that one defect fixed). -/
def kfFlags (c : GenCfg) : List (String × GenCfg) :=
  (if c.fallThroughAlways then [("container-fallthrough", { c with fallThroughAlways := false })] else []) ++
  (if c.negIndexPanics then [("negative-index", { c with negIndexPanics := false })] else []) ++
  (if c.nilInterceptAnyDepth then [("nil-intercept", { c with nilInterceptAnyDepth := false })] else []) ++
  (if c.elemNilCmpMissing then [("elem-nil-cmp", { c with elemNilCmpMissing := false })] else []) ++
  (if c.lcRootZero then [("lc-root-zero", { c with lcRootZero := false })] else []) ++
  (if c.lcScalarSliceZero then [("lc-scalar-slice-zero", { c with lcScalarSliceZero := false })] else []) ++
  (if c.lcStructStopPanics then [("lc-struct-stop-panics", { c with lcStructStopPanics := false })] else []) ++
  (if c.lcElemStopZero then [("lc-elem-stop-zero", { c with lcElemStopZero := false })] else []) ++
  (if c.deqPtrLeafNilUnchecked then [("deq-ptr-leaf-nil", { c with deqPtrLeafNilUnchecked := false })] else []) ++
  (if c.deqNilBeforeMustCheck then [("deq-nil-before-mustcheck", { c with deqNilBeforeMustCheck := false })] else [])

def allFixed (c : GenCfg) : GenCfg :=
  (kfFlags c).foldl (fun _acc _x => GenCfg.fixed) c

/-- Verdict for one op. `model cfg` is the model's outcome under a configuration, `accepts` the
property's acceptance relation, `impl` what the implementation did.
 * impl = model(repo), accepted                      → agree
 * impl = model(repo), not accepted, a listed defect explains it (repairing it changes the outcome) → known <classes>
 * impl = model(repo), not accepted, no listed defect explains it → model-viol (unlisted violation)
 * impl ≠ model(repo), accepted                      → dev-ok   (tie broken, property still holds here)
 * impl ≠ model(repo), not accepted                  → dev-viol (concrete failing input) -/
def classify {α : Type} [BEq α] (cfg : GenCfg) (model : GenCfg → α) (accepts : α → Bool) (impl : α) (sh : α → String) : String :=
  let m := model cfg
  if impl == m then
    if accepts m then "agree"
    else
      let cls := (kfFlags cfg).filter (fun (_, c') => !(model c' == m))
      if !cls.isEmpty then "known " ++ ",".intercalate (cls.map (·.1))
      else
        -- no single repair changes the outcome: look for a pair of listed defects that does
        let fl := kfFlags cfg
        let pairs := fl.flatMap fun (a, ca) => (kfFlags ca).filterMap fun (b, cab) =>
          if a < b && !(model cab == m) then some (a ++ "+" ++ b) else none
        if !pairs.isEmpty then "known " ++ ",".intercalate pairs
        else if !(model (allFixed cfg) == m) then "known combination"
      else "model-viol " ++ sh m
  else
    if accepts impl then "dev-ok " ++ sh m
    else "dev-viol " ++ sh m

def opGet (st : St) (head : List String) (pathToks : List String) (outToks : List String) : String :=
  match head with
  | [_, tid, form, vid] =>
    match st.types[tid]?, st.vals[vid]?, parseForm form, parsePath pathToks with
    | some n, some v, some f, some (p, _) =>
      match outToks with
      | _mut :: out =>
        match parseGetOut out with
        | some impl =>
          let r := nav n v p
          let okOf (o : GetOut) : Bool :=
            match rootOf f with
            | .ok => getAccepts r o
            | _ => true      -- nil / foreign roots: C02 and C12 territory
          classify st.cfg (fun c => getM c n f v p) okOf impl showGetOut
        | none => "skip unparsable-outcome"
      | [] => "skip no-outcome"
    | _, _, _, _ => "skip unresolved-input"
  | _ => "skip bad-head"

def parseCmpOut : String → Option CmpOut
  | "untouched" => some .untouched
  | "set0" => some (.set false)
  | "set1" => some (.set true)
  | "err" => some .err
  | "panic" => some .panic
  | _ => none

def showCmpOut : CmpOut → String
  | .untouched => "untouched"
  | .set b => if b then "set1" else "set0"
  | .err => "err"
  | .panic => "panic"

instance : BEq CmpOut := ⟨fun a b => decide (a = b)⟩

def opCmp (st : St) (head pathToks argToks outToks : List String) : String :=
  match head, argToks, outToks with
  | [_, tid, form, vid], [opTok, rightTok], [_mut, outTok] =>
    match st.types[tid]?, st.vals[vid]?, parseForm form, parsePath pathToks, opTok.toInt?, parseSeg rightTok, parseCmpOut outTok with
    | some n, some v, some f, some (p, _), some op, some right, some impl =>
      if right.pf == .inexact then "skip inexact-operand" else
      let okOf (o : CmpOut) : Bool :=
        match rootOf f with
        | .ok => cmpAccepts n v p op right o
        | _ => true
      classify st.cfg (fun c => cmpM c n f v p op right) okOf impl showCmpOut
    | _, _, _, _, _, _, _ => "skip unresolved-input"
  | _, _, _ => "skip bad-record"

def parseLcOut (s : String) : Option LcOut :=
  if s == "untouched" then some .untouched
  else if s == "err" then some .err
  else if s == "unsupported" then some .unsupported
  else if s == "panic" then some .panic
  else if s.startsWith "val" then
    match (s.drop 3).toString.toInt? with
    | some i => if i < 0 then none else some (.val i.toNat)
    | none => none
  else none

def showLcOut : LcOut → String
  | .untouched => "untouched"
  | .val n => s!"val{n}"
  | .err => "err"
  | .unsupported => "unsupported"
  | .panic => "panic"

instance : BEq LcOut := ⟨fun a b => decide (a = b)⟩

def opLC (st : St) (head pathToks argToks outToks : List String) : String :=
  match head, argToks, outToks with
  | [_, tid, form, vid], [fn], [_mut, outTok] =>
    match st.types[tid]?, st.vals[vid]?, parseForm form, parsePath pathToks, parseLcOut outTok with
    | some n, some v, some f, some (p, _), some impl =>
      let isCap := fn == "cap"
      let okOf (o : LcOut) : Bool :=
        match rootOf f with
        | .ok => lcAccepts isCap n v p o
        | _ => true
      classify st.cfg (fun c => lcM c isCap n f v p) okOf impl showLcOut
    | _, _, _, _, _ => "skip unresolved-input"
  | _, _, _ => "skip bad-record"

def parseDeqOut : String → Option DeqOut
  | "t" => some .t
  | "f" => some .f
  | "panic" => some .panic
  | _ => none

def showDeqOut : DeqOut → String
  | .t => "t" | .f => "f" | .panic => "panic"

instance : BEq DeqOut := ⟨fun a b => decide (a = b)⟩

/-- `-` (nil options) or `P<prec> E<n> name… F<n> name…`. -/
def parseOpts : List String → Option (Option DeqOpts)
  | ["-"] => some none
  | p :: rest =>
    if !p.startsWith "P" then none else do
    let prec ← (p.drop 1).toString.toInt?
    match rest with
    | e :: rest =>
      let ne ← (e.drop 1).toString.toNat?
      let ex := (rest.take ne).map untok
      match rest.drop ne with
      | f :: rest2 =>
        let nf ← (f.drop 1).toString.toNat?
        let fi := (rest2.take nf).map untok
        pure (some { precision := prec, exclude := ex, filter := fi })
      | [] => none
    | [] => none
  | [] => none

/-- D <tid> <fl> <fr> <vidA> <vidB> | <ident 0/1> | <opts> | <out(a,b)> <out(b,a)> -/
def opDeq (st : St) (head identToks optToks outToks : List String) : String :=
  match head, identToks, outToks with
  | [_, tid, fl, fr, va, vb], [identTok], [oab, oba, _mut] =>
    match st.types[tid]?, st.vals[va]?, st.vals[vb]?, parseForm fl, parseForm fr, parseOpts optToks, parseDeqOut oab, parseDeqOut oba with
    | some n, some a, some b, some fl, some fr, some opts, some iab, some iba =>
      let ident := identTok == "1"
      let model (c : GenCfg) : DeqOut × DeqOut :=
        (deqM { cfg := c, opts := opts, ident := ident } n fl fr a b, deqM { cfg := c, opts := opts, ident := ident } n fr fl b a)
      let okOf (o : DeqOut × DeqOut) : Bool :=
        match rootOf fl, rootOf fr with
        | .ok, .ok =>
          let t := eqS { opts := opts, ident := ident } n "" a b
          deqAccepts t o.1 && deqAccepts t o.2 && o.1 == o.2
        | _, _ => o.1 == o.2 || o.1 == .panic || o.2 == .panic    -- nil / foreign roots: symmetric; panics are C02's
      classify st.cfg model okOf (iab, iba) (fun o => showDeqOut o.1 ++ "," ++ showDeqOut o.2)
    | _, _, _, _, _, _, _, _ => "skip unresolved-input"
  | _, _, _ => "skip bad-record"

def handle (st : St) (line : String) : St × Option String :=
  match splitBar line with
  | ("T" :: tid :: toks) :: _ =>
    match parseNode toks with
    | some (n, _) => ({ st with types := st.types.insert tid n }, none)
    | none => (st, some "skip bad-type")
  | ("V" :: vid :: tid :: toks) :: _ =>
    match parseVal toks, st.types[tid]? with
    | some (v, _), some n => ({ st with vals := st.vals.insert vid (coerce n v) }, none)
    | some (v, _), none => ({ st with vals := st.vals.insert vid v }, none)
    | none, _ => (st, none)       -- values the model cannot name (inexact floats): ops on them are skipped
  | ["CFG", k, v] :: _ =>
    if k == "fallThroughAlways" then ({ st with cfg := { st.cfg with fallThroughAlways := v == "1" } }, none)
    else (st, none)
  | [head, path, out] =>
    match head.head? with
    | some "GT" | some "G" => (st, some (opGet st head path out))
    | _ => (st, some "skip unknown-op")
  | [head, path, arg, out] =>
    match head.head? with
    | some "C" => (st, some (opCmp st head path arg out))
    | some "LC" => (st, some (opLC st head path arg out))
    | some "D" => (st, some (opDeq st head path arg out))
    | _ => (st, some "skip unknown-op")
  | _ => (st, some "skip malformed")

partial def loop (h : IO.FS.Stream) (st : St) (lineNo : Nat) : IO Unit := do
  let line ← h.getLine
  if line.isEmpty then return ()
  let line := line.trimAsciiEnd.toString
  let (st', out) := handle st line
  match out with
  | some o => IO.println s!"{lineNo} {o}"
  | none => pure ()
  loop h st' (lineNo + 1)

def main : IO Unit := do
  loop (← IO.getStdin) {} 1
