package corr

import "strings"

func init() {
	Runners["C05"] = runC05
	Runners["C11"] = runC11
}

func runC05(p *Plan) {
	r := NewRng(p.Seed)
	nRandom := scale(p.Tier, 3, 10)
	nMut := scale(p.Tier, 25, 120)
	for _, e := range p.Types {
		tr := r.Fork(hashStr(e.Name))
		for _, vc := range valuesFor(p, e, tr, nRandom) {
			// a with itself, a with an independent structural copy
			OpDeq(p.Out, e, vc.v, vc.v, FormPtr, FormPtr, true, nil)
			fl, fr := readForms[tr.Intn(3)], readForms[tr.Intn(3)]
			OpDeq(p.Out, e, vc.v, DeepCopy(vc.v), fl, fr, false, nil)
			p.Out.Count("pair:self")
			p.Out.Count("pair:copy")
			sites := Sites(vc.v)
			for j := 0; j < nMut && j < len(sites)*2; j++ {
				s := sites[tr.Intn(len(sites))]
				m := MutateAt(tr, vc.v, s.Index)
				if m.What == "none" || m.What == "" {
					continue
				}
				OpDeq(p.Out, e, vc.v, m.V, FormPtr, readForms[tr.Intn(3)], false, nil)
				p.Out.Count("mutation:" + m.What)
			}
		}
	}
}

func parentOf(d string) string {
	if i := strings.LastIndex(d, "."); i >= 0 {
		return d[:i]
	}
	return ""
}

func ancestors(d string) []string {
	var out []string
	for d != "" {
		out = append(out, d)
		d = parentOf(d)
	}
	return out
}

func runC11(p *Plan) {
	r := NewRng(p.Seed)
	nRandom := scale(p.Tier, 2, 8)
	nMut := scale(p.Tier, 15, 80)
	for _, e := range p.Types {
		tr := r.Fork(hashStr(e.Name))
		for _, vc := range valuesFor(p, e, tr, nRandom) {
			sites := Sites(vc.v)
			// sibling names: any other dotted path of the value
			var names []string
			seen := map[string]bool{}
			for _, s := range sites {
				if s.Dotted != "" && !seen[s.Dotted] {
					seen[s.Dotted] = true
					names = append(names, s.Dotted)
				}
			}
			if len(names) == 0 {
				names = []string{"X"}
			}
			for j := 0; j < nMut && j < len(sites)*2; j++ {
				s := sites[tr.Intn(len(sites))]
				m := MutateAt(tr, vc.v, s.Index)
				if m.What == "none" || m.What == "" {
					continue
				}
				anc := ancestors(m.Dotted)
				for k := 0; k < 4; k++ {
					o := &Opts{}
					var list []string
					switch tr.Intn(6) {
					case 0: // the field itself
						list = []string{m.Dotted}
					case 1: // an ancestor
						if len(anc) > 1 {
							list = []string{anc[1+tr.Intn(len(anc)-1)]}
						} else {
							list = []string{m.Dotted}
						}
					case 2: // a sibling / unrelated field
						list = []string{names[tr.Intn(len(names))]}
					case 3: // the field with all its ancestors
						list = anc
					case 4: // names nothing
						list = []string{"NoSuchField"}
					default: // empty set
						list = []string{}
					}
					mode := tr.Intn(8)
					switch {
					case mode < 3:
						o.Exclude = list
					case mode < 6:
						o.Filter = list
					case mode == 6:
						o.Exclude = list
						o.Filter = []string{names[tr.Intn(len(names))]}
					default:
						o.Nil = true
					}
					switch tr.Intn(4) {
					case 0:
						o.PrecFx = 16 // well below the 0.1-tolerance shift (104 units)
					case 1:
						o.PrecFx = 1 << 16 // above the 10-tolerance shift (10485 units)
					}
					if tr.Chance(1, 10) {
						o = &Opts{} // empty options
					}
					OpDeq(p.Out, e, vc.v, m.V, FormPtr, FormPtr, false, o)
					p.Out.Count("mutation:" + m.What)
				}
			}
			// nil options and empty options on identical values
			OpDeq(p.Out, e, vc.v, DeepCopy(vc.v), FormPtr, FormVal, false, &Opts{Nil: true})
			OpDeq(p.Out, e, vc.v, DeepCopy(vc.v), FormPtr, FormPtrPtr, false, &Opts{})
		}
	}
}
