/-
Core/Basic.lean — byte strings, hex coding, decimal rendering, Go integer wrap-around.
Core library only (no Mathlib): this file is linked into the `driver` executable.
-/
namespace Inspector

/-- Go strings and byte slices are arbitrary byte sequences. -/
abbrev Bytes := List UInt8

def strBytes (s : String) : Bytes := s.toUTF8.toList

def hexDigit (n : Nat) : Char :=
  if n < 10 then Char.ofNat (48 + n) else Char.ofNat (87 + n)

def hexOfByte (b : UInt8) : List Char :=
  [hexDigit (b.toNat / 16), hexDigit (b.toNat % 16)]

def hexOfBytes (bs : Bytes) : String :=
  String.ofList (bs.flatMap hexOfByte)

def hexVal (c : Char) : Option Nat :=
  if '0' ≤ c ∧ c ≤ '9' then some (c.toNat - 48)
  else if 'a' ≤ c ∧ c ≤ 'f' then some (c.toNat - 87)
  else if 'A' ≤ c ∧ c ≤ 'F' then some (c.toNat - 55)
  else none

def bytesOfHexChars : List Char → Option Bytes
  | [] => some []
  | [_] => none
  | a :: b :: rest =>
    match hexVal a, hexVal b, bytesOfHexChars rest with
    | some x, some y, some r => some (UInt8.ofNat (x * 16 + y) :: r)
    | _, _, _ => none

def bytesOfHex (s : String) : Option Bytes := bytesOfHexChars s.toList

/-- Byte-wise lexicographic `<` — Go's `<` on strings. -/
def bytesLt : Bytes → Bytes → Bool
  | [], [] => false
  | [], _ :: _ => true
  | _ :: _, [] => false
  | a :: as, b :: bs => if a < b then true else if b < a then false else bytesLt as bs

def bytesLe (a b : Bytes) : Bool := !bytesLt b a

/-- Decimal rendering (`strconv.AppendInt(_, i, 10)`). -/
def renderInt (i : Int) : Bytes := strBytes (toString i)
def renderNat (n : Nat) : Bytes := strBytes (toString n)

/-- Go conversion to a signed integer type of `bits` bits (two's-complement wrap-around). -/
def wrapS (bits : Nat) (i : Int) : Int :=
  let m : Int := (2 : Int) ^ bits
  let r := i % m
  if r ≥ m / 2 then r - m else r

/-- Go conversion to an unsigned integer type of `bits` bits. -/
def wrapU (bits : Nat) (i : Int) : Nat := (i % ((2 : Int) ^ bits)).toNat

def inRangeS (bits : Nat) (i : Int) : Bool :=
  decide (-((2 : Int) ^ (bits - 1)) ≤ i) && decide (i < (2 : Int) ^ (bits - 1))

def inRangeU (bits : Nat) (n : Nat) : Bool := decide (n < 2 ^ bits)

/-- Parse an optionally signed decimal integer (used by the driver's token reader only). -/
def parseIntTok (s : String) : Option Int := s.toInt?

def parseNatTok (s : String) : Option Nat := s.toNat?

end Inspector
