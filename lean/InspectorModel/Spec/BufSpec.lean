/-
Spec/BufSpec.lean — what C07 demands of a history of operations over one accumulating buffer, and the
observations the acceptance check is applied to.
-/
import InspectorModel.Lib.Buffer
namespace Inspector

/-- The handed-out value an operation is aimed at (client operations and re-assignment of a variable). -/
def BufOp.target : BufOp → Option Nat
  | .overwrite h _ _ | .appendTo h _ | .setNoBuf h _ | .assignBufTo h _ => some h
  | _ => none

def BufOp.isReset : BufOp → Bool
  | .reset => true
  | _ => false

/-- Client discipline: after a Reset the values handed out before it are dead — a client does not write,
append or Set through them any more (it may re-assign their variables through the buffer: `assignBufTo`). -/
def opLive (s : BufSt) : BufOp → Bool
  | .overwrite h _ _ | .appendTo h _ | .setNoBuf h _ =>
    (match s.handles[h]? with | some hd => !hd.stale | none => true)
  | _ => true

/-- Run a history; every step carries the capacity the runtime chose if that step had to grow an array. -/
def bufRun (cfg : BufCfg) (s : BufSt) : List (BufOp × Nat) → BufSt
  | [] => s
  | (op, nc) :: rest => bufRun cfg (bufStep cfg s op nc) rest

/-- `opLive` at every step of the run. -/
def runLive (cfg : BufCfg) (s : BufSt) : List (BufOp × Nat) → Bool
  | [] => true
  | (op, nc) :: rest => opLive s op && runLive cfg (bufStep cfg s op nc) rest

/-- Observation of a state: capacity and content of every watched (not stale) handed-out value. -/
def bufObs (s : BufSt) : List (Option (Nat × Bytes)) :=
  s.handles.map fun h => if h.stale then none else some (h.win.cap, readWin s.arrays h.win)

/-- The observations after every step of a run. -/
def bufRunObs (cfg : BufCfg) (s : BufSt) : List (BufOp × Nat) → List (List (Option (Nat × Bytes)))
  | [] => []
  | (op, nc) :: rest => bufObs (bufStep cfg s op nc) :: bufRunObs cfg (bufStep cfg s op nc) rest

/-! ### Reference semantics: every handed-out value is a Go value of its own -/

/-- A handed-out value as a client should see it: its bytes, whether it is a string, and whether it was
handed out before the last Reset. -/
structure AVal where
  content : Bytes
  isStr : Bool
  stale : Bool
deriving Repr, DecidableEq, Inhabited

/-- What every operation means when no two values share memory: it touches the value it is aimed at and
nothing else. -/
def absStep (a : List AVal) : BufOp → List AVal
  | .bufferize p => a ++ [{ content := p, isStr := false, stale := false }]
  | .bufferizeStr p => a ++ [{ content := p, isStr := true, stale := false }]
  | .assignBuf r isStr => a ++ [{ content := r, isStr := isStr, stale := false }]
  | .assignBufTo h r =>
    (match a[h]? with | some v => a.set h { content := r, isStr := v.isStr, stale := false } | none => a)
  | .reset => a.map fun v => { v with stale := true }
  | .overwrite h i b =>
    (match a[h]? with
     | some v => if v.isStr || i ≥ v.content.length then a else a.set h { v with content := v.content.set i b }
     | none => a)
  | .appendTo h q =>
    (match a[h]? with
     | some v => if v.isStr then a else a.set h { v with content := v.content ++ q }
     | none => a)
  | .setNoBuf h r =>
    (match a[h]? with
     | some v => if v.isStr then a else a.set h { v with content := r }
     | none => a)

def absRun (a : List AVal) : List (BufOp × Nat) → List AVal
  | [] => a
  | (op, _) :: rest => absRun (absStep a op) rest

/-- The content of watched value `j` differs between two consecutive observations. -/
def obsChanged (prev cur : List (Option (Nat × Bytes))) (j : Nat) : Bool :=
  match prev[j]?, cur[j]? with | some (some a), some (some b) => !(a.2 == b.2) | _, _ => false

/-- What C07 demands of a history: a watched (not stale) value changes only through a client operation
*on that value* (or by being assigned anew). Returns the index of the first step that breaks it. -/
def bufHistoryViolation (ops : List BufOp) (obs : List (List (Option (Nat × Bytes)))) : Option Nat :=
  let rec go (i : Nat) (prev : List (Option (Nat × Bytes))) (ops : List BufOp) (obs : List (List (Option (Nat × Bytes)))) : Option Nat :=
    match ops, obs with
    | op :: ops', cur :: obs' =>
      let touched : Option Nat := op.target
      let bad := (List.range prev.length).any fun j => some j != touched && obsChanged prev cur j
      if bad then some i else go (i + 1) cur ops' obs'
    | _, _ => none
  go 0 [] ops obs

end Inspector
