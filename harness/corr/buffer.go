package corr

import (
	"encoding/hex"
	"strconv"
	"strings"

	"github.com/koykov/inspector"
)

// handle is a value handed out through the accumulating buffer and still watched.
type bufHandle struct {
	b     []byte
	s     string
	isStr bool
	stale bool // handed out before the last Reset: not watched, still usable as a destination variable
}

func (h *bufHandle) content() string {
	if h.isStr {
		return h.s
	}
	return string(h.b)
}

// OpBufferHistory emits one `BH` record: a history of operations over one ByteBuffer; after every
// step the content and capacity of every value handed out so far is re-read.
//
//	BH <initcap> | op ; op ; … | obs ; obs ; …      obs = <newcap> <h0cap>:<h0hex> <h1cap>:<h1hex> …
func OpBufferHistory(o *Out, r *Rng, initCap int, steps int) {
	buf := inspector.NewByteBuffer(initCap)
	var hs []*bufHandle
	var ops, obs []string
	texts := []string{"", "a", "bc", "defg", "0123456789", "пр", "xyzxyzxyzxyzxyzxyz"}
	for i := 0; i < steps; i++ {
		var op string
		newCap := 0
		k := r.Intn(14)
		if len(hs) == 0 && k >= 8 {
			k = r.Intn(6)
		}
		live := 0
		for _, h := range hs {
			if !h.stale {
				live++
			}
		}
		if live == 0 && k >= 8 && k <= 11 {
			k = r.Intn(6)
		}
		pickLive := func() int {
			for {
				h := r.Intn(len(hs))
				if !hs[h].stale {
					return h
				}
			}
		}
		switch k {
		case 0, 1, 2:
			p := texts[r.Intn(len(texts))]
			res := buf.Bufferize([]byte(p))
			hs = append(hs, &bufHandle{b: res})
			op = "bz h" + hex.EncodeToString([]byte(p))
			newCap = cap(buf.AcquireBytes())
		case 3, 4:
			p := texts[r.Intn(len(texts))]
			res := buf.BufferizeString(p)
			hs = append(hs, &bufHandle{s: res, isStr: true})
			op = "bs h" + hex.EncodeToString([]byte(p))
			newCap = cap(buf.AcquireBytes())
		case 5:
			n, txt := histSrc(r)
			var dst []byte
			inspector.AssignBuf(&dst, n, buf)
			hs = append(hs, &bufHandle{b: dst})
			op = "ab h" + hex.EncodeToString([]byte(txt)) + " 0"
			newCap = cap(buf.AcquireBytes())
		case 6:
			n, txt := histSrc(r)
			var dst string
			inspector.AssignBuf(&dst, n, buf)
			hs = append(hs, &bufHandle{s: dst, isStr: true})
			op = "ab h" + hex.EncodeToString([]byte(txt)) + " 1"
			newCap = cap(buf.AcquireBytes())
		case 7:
			if r.Chance(1, 2) {
				buf.Reset()
				for _, h := range hs {
					h.stale = true
				}
				op = "rs"
				newCap = cap(buf.AcquireBytes())
			} else {
				p := texts[r.Intn(len(texts))]
				res := buf.Bufferize([]byte(p))
				hs = append(hs, &bufHandle{b: res})
				op = "bz h" + hex.EncodeToString([]byte(p))
				newCap = cap(buf.AcquireBytes())
			}
		case 12, 13:
			// AssignBuf into the variable of an earlier handle (possibly stale after a Reset)
			h := r.Intn(len(hs))
			n := []int{r.Intn(100), r.Intn(100000), 17, 42, 2024, 1984}[r.Intn(6)]
			if hs[h].isStr {
				inspector.AssignBuf(&hs[h].s, n, buf)
			} else {
				inspector.AssignBuf(&hs[h].b, n, buf)
			}
			hs[h].stale = false
			op = "ad " + strconv.Itoa(h) + " h" + hex.EncodeToString([]byte(strconv.Itoa(n)))
			newCap = cap(buf.AcquireBytes())
		case 8, 9:
			h := pickLive()
			if hs[h].isStr || len(hs[h].b) == 0 {
				op = "nop"
				break
			}
			idx := r.Intn(len(hs[h].b))
			hs[h].b[idx] = byte('A' + r.Intn(26))
			op = "ow " + strconv.Itoa(h) + " " + strconv.Itoa(idx) + " " + strconv.Itoa(int(hs[h].b[idx]))
		case 10:
			h := pickLive()
			if hs[h].isStr {
				op = "nop"
				break
			}
			q := texts[1+r.Intn(4)]
			hs[h].b = append(hs[h].b, q...)
			op = "ap " + strconv.Itoa(h) + " h" + hex.EncodeToString([]byte(q))
			newCap = cap(hs[h].b)
		default:
			h := pickLive()
			if hs[h].isStr {
				op = "nop"
				break
			}
			n := r.Intn(100000)
			inspector.Assign(&hs[h].b, n)
			op = "nb " + strconv.Itoa(h) + " h" + hex.EncodeToString([]byte(strconv.Itoa(n)))
			newCap = cap(hs[h].b)
		}
		ops = append(ops, op)
		var sb strings.Builder
		sb.WriteString(strconv.Itoa(newCap))
		for _, h := range hs {
			if h.stale {
				sb.WriteString(" -")
				continue
			}
			c := len(h.s)
			if !h.isStr {
				c = cap(h.b)
			}
			sb.WriteString(" " + strconv.Itoa(c) + ":" + hex.EncodeToString([]byte(h.content())))
		}
		obs = append(obs, sb.String())
	}
	o.Op("BH " + strconv.Itoa(initCap) + " | " + strings.Join(ops, " ; ") + " | " + strings.Join(obs, " ; "))
}

// histSrc picks a scalar of one of the families the conversion chain renders (integers, booleans, floats with an
// exact short decimal form) together with the text it renders to.
func histSrc(r *Rng) (any, string) {
	switch r.Intn(5) {
	case 0:
		b := r.Bool()
		return b, strconv.FormatBool(b)
	case 1:
		f := float64(r.Intn(4000)-2000) / 8
		return f, strconv.FormatFloat(f, 'f', -1, 64)
	case 2:
		n := uint16(r.Intn(65536))
		return n, strconv.Itoa(int(n))
	case 3:
		n := int8(r.Intn(256) - 128)
		return n, strconv.Itoa(int(n))
	default:
		n := r.Intn(2000000) - 1000
		return n, strconv.Itoa(n)
	}
}
