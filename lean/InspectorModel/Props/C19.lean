/-
Props/C19.lean — property theorems for C19 (Assign/AssignBuf store the canonical conversion).

`assign_correct`: for the repaired chain (`AssignCfg.fixed`: AssignToStr replaces instead of appending, a nil
pointer source is refused instead of dereferenced), every destination kind, every previous destination
content, every source (kind, value or pointer form, value, strconv oracles) and both buffer modes, the
observation the driver derives from the model's outcome (`assignObsOf … |>.getD {} |>.norm`, exactly what
`Driver/GenOps.lean opAssign` hands to `assignAccepts`) is accepted by the conversion table `specConv`.
One hypothesis, `boolSrcTyped` (implied by `Src.wt`, "the value has the representation its dynamic kind
demands"): without it the statement is false (`untyped_source_counterexample`).
The model of the current tree is rejected on the classes `assign-str-appends` and `assign-nil-src`.
-/
import InspectorModel.Proofs.C19
namespace Inspector.C19

/-- A foreign source never converts. -/
theorem foreign_src_fails (a : AssignCfg) (dk : DynKind) (old : Val) (s : Src) (nb : Bool) (h : s.kind = .foreign) :
    (match assignM a dk old s nb with | .no => true | _ => false) = true := by
  cases dk <;> simp [assignM, h, DynKind.family, renderSrc]

/-- The configuration the theorems are about is the one `GenCfg.fixed` induces in the driver
(`assignObsModel`) and in `Gen/Set.lean`. -/
theorem fixed_is_genFixed :
    AssignCfg.fixed = { strAppendsOld := GenCfg.fixed.strAppendsOld, nilSrcPanics := GenCfg.fixed.assignNilSrcPanics } := rfl

theorem repo_is_genRepo :
    AssignCfg.repo = { strAppendsOld := GenCfg.repo.strAppendsOld, nilSrcPanics := GenCfg.repo.assignNilSrcPanics } := rfl

/-- C19 for the repaired chain, at the strength the driver checks it: `noBuf` is `bufMode == "none"`,
the spec's `withBuf` is `bufMode != "none"`. -/
theorem assign_correct (dk : DynKind) (old : Val) (s : Src) (noBuf : Bool) (hs : boolSrcTyped dk s = true) :
    assignAccepts dk old s (!noBuf)
      ((assignObsOf (assignM AssignCfg.fixed dk old s noBuf) dk old s noBuf).getD {}).norm = true :=
  accepts_of_agrees dk old s noBuf _ (conv_agrees dk old s noBuf hs)

/-- The same under the natural reading of the hypothesis: the source value is of its dynamic kind. -/
theorem assign_correct_of_wt (dk : DynKind) (old : Val) (s : Src) (noBuf : Bool) (hs : s.wt = true) :
    assignAccepts dk old s (!noBuf)
      ((assignObsOf (assignM AssignCfg.fixed dk old s noBuf) dk old s noBuf).getD {}).norm = true :=
  assign_correct dk old s noBuf (boolSrcTyped_of_wt dk s hs)

/-- No hypothesis at all is needed for a destination other than `*bool`. -/
theorem assign_correct_non_bool (dk : DynKind) (old : Val) (s : Src) (noBuf : Bool) (hd : dk ≠ .bool) :
    assignAccepts dk old s (!noBuf)
      ((assignObsOf (assignM AssignCfg.fixed dk old s noBuf) dk old s noBuf).getD {}).norm = true :=
  assign_correct dk old s noBuf (boolSrcTyped_of_ne_bool dk s hd)

/-- The outcome-level statement behind `assign_correct`: where the table says "store v" the chain stores a
value of the same content, where it says "fail" the chain reports that no conversion applies (and the
observation then carries the old destination, `assignObsOf`), and the repaired chain never panics. -/
theorem assign_outcome (dk : DynKind) (old : Val) (s : Src) (noBuf : Bool) (hs : boolSrcTyped dk s = true) :
    convAgrees (specConv dk s) (assignM AssignCfg.fixed dk old s noBuf) = true :=
  conv_agrees dk old s noBuf hs

/-- The repaired chain never panics, whatever the source. -/
theorem fixed_never_panics (dk : DynKind) (old : Val) (s : Src) (noBuf : Bool) :
    (match assignM AssignCfg.fixed dk old s noBuf with | .panic => false | _ => true) = true :=
  no_panic dk old s noBuf

/-- Value and pointer forms of a source are equivalent (for every configuration). -/
theorem ptr_form_irrelevant (a : AssignCfg) (dk : DynKind) (old : Val) (s : Src) (noBuf : Bool) (p : Bool) :
    assignM a dk old { s with isPtr := p } noBuf = assignM a dk old s noBuf :=
  assignM_isPtr a dk old s noBuf p

/-- Text into an integer destination: a parsed value inside the destination's range is stored as it is
(the Go conversion does not wrap). -/
theorem wrapS_exact (dk : DynKind) (i : Int) (h : inRangeS dk.bits i = true) : wrapS dk.bits i = i :=
  wrapS_of_inRange _ _ (bits_pos dk) h

theorem wrapU_exact (dk : DynKind) (n : Nat) (h : inRangeU dk.bits n = true) : wrapU dk.bits (n : Int) = n :=
  wrapU_of_inRange _ _ h

section NonVacuity
def intSrc (i : Int) : Src := { kind := .int, v := .int i }
def txtSrc (t : String) (pf : PF := .err) : Src := { kind := .string, v := .str (strBytes t), pf := pf }

example : (intSrc 5).wt = true ∧ boolSrcTyped .bool (intSrc 5) = true := by decide
/-- int → *string with a pre-filled buffer: the table demands a store, and the repaired chain stores. -/
example : (match specConv .string (intSrc 5) with | .store _ => true | _ => false) = true := by decide
example : (match assignM AssignCfg.fixed .string (.str (strBytes "ab")) (intSrc 5) true with
           | .ok (.str t) => t == renderInt 5 | _ => false) = true := by decide
/-- garbage text → *int8: the table demands failure; the destination is left as it was. -/
example : (match specConv .int8 (txtSrc "12x") with | .fail => true | _ => false) = true := by decide
/-- "-128" → *int8 is stored, "true" → *bool is true. -/
example : (match assignM AssignCfg.fixed .int8 (.int 7) (txtSrc "-128") true with
           | .ok (.int i) => i == -128 | _ => false) = true := by decide

/-- Without the hypothesis the statement is false: a source tagged `int` whose value is the bool `true`
(no Go value is like that) stored into `*bool` — the table reads it as the number 0, the chain as the bool. -/
theorem untyped_source_counterexample :
    let s : Src := { kind := .int, v := .bool true }
    boolSrcTyped .bool s = false ∧ s.wt = false ∧
    assignAccepts .bool (.bool false) s false
      ((assignObsOf (assignM AssignCfg.fixed .bool (.bool false) s true) .bool (.bool false) s true).getD {}).norm = false := by
  decide

/-- Known finding `assign-str-appends`: Assign (no buffer) of the int 5 into a `*string` holding "ab" leaves
"ab5" in the tree as it was before the `fix:` commit (AssignCfg.original); the property demands "5". -/
theorem repo_not_correct_str_appends :
    assignAccepts .string (.str (strBytes "ab")) (intSrc 5) false
      ((assignObsOf (assignM AssignCfg.original .string (.str (strBytes "ab")) (intSrc 5) true)
          .string (.str (strBytes "ab")) (intSrc 5) true).getD {}).norm = false := by
  decide

/-- Known finding `assign-nil-src`: a nil `*int` source offered to a destination of a foreign type must
fail quietly; the current tree dereferences it. -/
theorem repo_not_correct_nil_src :
    let s : Src := { kind := .int, isPtr := true, v := .nilptr }
    assignAccepts .foreign (.int 1) s false
      ((assignObsOf (assignM AssignCfg.original .foreign (.int 1) s true) .foreign (.int 1) s true).getD {}).norm = false := by
  decide

/-- The repaired chain on the same two inputs is accepted (instances of `assign_correct`). -/
example :
    assignAccepts .string (.str (strBytes "ab")) (intSrc 5) false
      ((assignObsOf (assignM AssignCfg.fixed .string (.str (strBytes "ab")) (intSrc 5) true)
          .string (.str (strBytes "ab")) (intSrc 5) true).getD {}).norm = true :=
  assign_correct .string (.str (strBytes "ab")) (intSrc 5) true (by decide)
end NonVacuity

/-! ### The tree as it is now

After `fix: AssignToStr without a buffer appended …` the only switch of the chain left on in the current tree is
`nilSrcPanics` (a nil pointer passed as the source is dereferenced, C02). For every source that is not a nil
pointer the model of the current tree is the repaired model. -/
section CurrentTree

theorem assignM_current (dk : DynKind) (old : Val) (s : Src) (noBuf : Bool) (hs : s.v.isNilPtr = false) :
    assignM AssignCfg.repo dk old s noBuf = assignM AssignCfg.fixed dk old s noBuf := by
  unfold assignM
  simp only [hs, Bool.false_and, Bool.false_eq_true, if_false]
  rfl

theorem assign_current (dk : DynKind) (old : Val) (s : Src) (noBuf : Bool) (hs : boolSrcTyped dk s = true)
    (hn : s.v.isNilPtr = false) :
    assignAccepts dk old s (!noBuf)
      ((assignObsOf (assignM AssignCfg.repo dk old s noBuf) dk old s noBuf).getD {}).norm = true := by
  rw [assignM_current dk old s noBuf hn]; exact assign_correct dk old s noBuf hs

/-- Since `fix: Assign/AssignBuf dereferenced a nil pointer passed as the source` the current tree's chain *is*
the repaired chain, for every source. -/
theorem repo_is_fixed : AssignCfg.repo = AssignCfg.fixed := rfl

theorem assign_current_all (dk : DynKind) (old : Val) (s : Src) (noBuf : Bool) (hs : boolSrcTyped dk s = true) :
    assignAccepts dk old s (!noBuf)
      ((assignObsOf (assignM AssignCfg.repo dk old s noBuf) dk old s noBuf).getD {}).norm = true := by
  rw [repo_is_fixed]; exact assign_correct dk old s noBuf hs

end CurrentTree

end Inspector.C19
