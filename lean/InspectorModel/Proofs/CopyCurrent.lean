/-
Proofs/CopyCurrent.lean — the Copy / CopyTo emitter model (`Gen/Copy.lean`) reads six switches of its `GenCfg`
inside the mutual block (`copyRootSliceLost`, `copyRootMapPanics`, `copyPtrShared`, `copyNilElemPanics`,
`copyNilDestPanics`, `copyEmptyPtrCollDropped`) and one in the entry points (`nilRootPanics`, through
`copySrcOfC` and the typed-nil destination of `copyToM`). Configurations that agree on them give the same
result. All seven are off in `GenCfg.repo` and in `GenCfg.fixed`, so the model of the tree as it is *is* the
repaired model for Copy and CopyTo (`copyM_repo`, `copyToM_repo`), for every argument form; the same for what
the driver observes of them (`copyObsOfWith_repo`, which also runs DeepEqual, and `cycleModelWith_repo`, which
also runs Reset; Spec/CopyObs.lean).
-/
import InspectorModel.Gen.Copy
import InspectorModel.Spec.CopyObs
import InspectorModel.Proofs.DEQCurrent
import InspectorModel.Proofs.ResetCurrent
set_option linter.unusedSimpArgs false
set_option linter.unusedVariables false
namespace Inspector.CopyCurrent

/-- The two configurations agree on every switch the mutual block of the copy model reads. -/
structure Agree (c1 c2 : GenCfg) : Prop where
  rootSliceLost : c1.copyRootSliceLost = c2.copyRootSliceLost
  rootMapPanics : c1.copyRootMapPanics = c2.copyRootMapPanics
  ptrShared : c1.copyPtrShared = c2.copyPtrShared
  nilElemPanics : c1.copyNilElemPanics = c2.copyNilElemPanics
  nilDestPanics : c1.copyNilDestPanics = c2.copyNilDestPanics
  emptyPtrCollDropped : c1.copyEmptyPtrCollDropped = c2.copyEmptyPtrCollDropped

theorem copyKey_cfg (c1 c2 : GenCfg) (h : Agree c1 c2) (mk : Node) (rk : Val) :
    copyKey c1 mk rk = copyKey c2 mk rk := by
  cases rk <;> simp only [copyKey, h.nilDestPanics, h.ptrShared]

/-- The destination struct a pointer-to-struct node copies into: the target of `l`, or a fresh `&T{}`. -/
def dstOf (n : Node) (l : Val) : Val :=
  match l with
  | .ptr w => w
  | _ => zeroNoPtr n

/-- For a pointer-to-struct node only `dstOf` of the destination matters. -/
theorem copyN_ptr_struct_dst (c : GenCfg) (i : Info) (chld : List Node) (d0 : Bool) (l rw : Val) :
    copyN c (.struct i chld) d0 l (.ptr rw) =
      copyN c (.struct i chld) d0 (.ptr (dstOf (.struct i chld) l)) (.ptr rw) := by
  cases l <;> (unfold copyN; simp only [dstOf])

mutual
theorem copyN_cfg (c1 c2 : GenCfg) (h : Agree c1 c2) (r : Val) :
    ∀ (n : Node) (d0 : Bool) (l : Val), copyN c1 n d0 l r = copyN c2 n d0 l r := by
  intro n d0 l
  cases r with
  | nilptr => simp only [copyN, h.nilDestPanics]
  | ptr rw =>
    cases n with
    | basic i => cases rw <;> simp only [copyN, h.nilDestPanics, h.ptrShared]
    | struct i chld =>
      rw [copyN_ptr_struct_dst c1, copyN_ptr_struct_dst c2]
      generalize dstOf (.struct i chld) l = lw
      cases rw with
      | struct rfs =>
        have ih := copyFields_cfg c1 c2 h rfs
        cases lw <;> simp only [copyN, ih]
      | _ => cases lw <;> simp only [copyN]
    | map i mk mv =>
      cases rw with
      | map nl rks rvs =>
        have ih := copyEntries_cfg c1 c2 h rvs
        simp only [copyN, h.nilDestPanics, h.emptyPtrCollDropped, ih]
      | _ => simp only [copyN]
    | slice i e =>
      cases rw with
      | slice nl res c =>
        have ih := copyElems_cfg c1 c2 h res
        simp only [copyN, h.nilDestPanics, h.emptyPtrCollDropped, ih]
      | _ => simp only [copyN, h.nilDestPanics]
  | bool b => simp only [copyN]
  | int b => simp only [copyN]
  | uint b => simp only [copyN]
  | float b => simp only [copyN]
  | str b => simp only [copyN]
  | bytes nl d c => simp only [copyN]
  | struct rfs =>
    have ih := copyFields_cfg c1 c2 h rfs
    simp only [copyN, ih]
  | map nl rks rvs =>
    have ih := copyEntries_cfg c1 c2 h rvs
    simp only [copyN, h.rootMapPanics, ih]
  | slice nl res c =>
    have ih := copyElems_cfg c1 c2 h res
    simp only [copyN, h.rootSliceLost, ih]
termination_by sizeOf r

theorem copyFields_cfg (c1 c2 : GenCfg) (h : Agree c1 c2) (rs : List Val) :
    ∀ (chld : List Node) (ls : List Val), copyFields c1 chld ls rs = copyFields c2 chld ls rs := by
  intro chld ls
  cases rs with
  | nil => simp only [copyFields]
  | cons r rs' =>
    have ih1 := copyN_cfg c1 c2 h r
    have ih2 := copyFields_cfg c1 c2 h rs'
    cases chld with
    | nil => simp only [copyFields]
    | cons ch chs =>
      cases ls with
      | nil => simp only [copyFields]
      | cons l ls' => simp only [copyFields, ih1, ih2]
termination_by sizeOf rs

theorem copyEntries_cfg (c1 c2 : GenCfg) (h : Agree c1 c2) (rvs : List Val) :
    ∀ (mk mv : Node) (lks lvs rks : List Val),
      copyEntries c1 mk mv lks lvs rks rvs = copyEntries c2 mk mv lks lvs rks rvs := by
  intro mk mv lks lvs rks
  cases rvs with
  | nil => simp only [copyEntries]
  | cons rv rvs' =>
    have ih1 := copyN_cfg c1 c2 h rv
    have ih2 := copyEntries_cfg c1 c2 h rvs'
    cases rks with
    | nil => simp only [copyEntries]
    | cons rk rks' =>
      cases rv with
      | ptr rw =>
        have ih3 := copyN_cfg c1 c2 h rw
        simp only [copyEntries, copyKey_cfg c1 c2 h, h.nilElemPanics, ih1, ih2, ih3]
      | _ => simp only [copyEntries, copyKey_cfg c1 c2 h, h.nilElemPanics, ih1, ih2]
termination_by sizeOf rvs

theorem copyElems_cfg (c1 c2 : GenCfg) (h : Agree c1 c2) (res : List Val) :
    ∀ (e : Node) (les : List Val), copyElems c1 e les res = copyElems c2 e les res := by
  intro e les
  cases res with
  | nil => simp only [copyElems]
  | cons r res' =>
    have ih1 := copyN_cfg c1 c2 h r
    have ih2 := copyElems_cfg c1 c2 h res'
    cases r with
    | ptr rw =>
      have ih3 := copyN_cfg c1 c2 h rw
      simp only [copyElems, h.nilElemPanics, ih1, ih2, ih3]
    | _ => simp only [copyElems, h.nilElemPanics, ih1, ih2]
termination_by sizeOf res
end

theorem copySrcOfC_cfg (c1 c2 : GenCfg) (hroot : c1.nilRootPanics = c2.nilRootPanics) (f : Form) :
    copySrcOfC c1 f = copySrcOfC c2 f := by
  unfold copySrcOfC; rw [hroot]

theorem copyM_cfg (c1 c2 : GenCfg) (h : Agree c1 c2) (hroot : c1.nilRootPanics = c2.nilRootPanics)
    (n : Node) (f : Form) (r : Val) : copyM c1 n f r = copyM c2 n f r := by
  unfold copyM
  rw [copySrcOfC_cfg c1 c2 hroot, copyN_cfg c1 c2 h r]

theorem copyToM_cfg (c1 c2 : GenCfg) (h : Agree c1 c2) (hroot : c1.nilRootPanics = c2.nilRootPanics)
    (n : Node) (fs fd : Form) (r l : Val) : copyToM c1 n fs fd r l = copyToM c2 n fs fd r l := by
  unfold copyToM
  rw [copySrcOfC_cfg c1 c2 hroot, copyN_cfg c1 c2 h r, hroot]

/-- `GenCfg.repo` and `GenCfg.fixed` agree on every copy switch (all off). -/
theorem agree_repo : Agree GenCfg.repo GenCfg.fixed := ⟨rfl, rfl, rfl, rfl, rfl, rfl⟩

/-- All five functions of the copy model: the current tree is the repaired emitter. -/
theorem copyKey_repo (mk : Node) (rk : Val) : copyKey GenCfg.repo mk rk = copyKey GenCfg.fixed mk rk :=
  copyKey_cfg GenCfg.repo GenCfg.fixed agree_repo mk rk
theorem copyN_repo (n : Node) (d0 : Bool) (l r : Val) : copyN GenCfg.repo n d0 l r = copyN GenCfg.fixed n d0 l r :=
  copyN_cfg GenCfg.repo GenCfg.fixed agree_repo r n d0 l
theorem copyFields_repo (chld : List Node) (ls rs : List Val) :
    copyFields GenCfg.repo chld ls rs = copyFields GenCfg.fixed chld ls rs :=
  copyFields_cfg GenCfg.repo GenCfg.fixed agree_repo rs chld ls
theorem copyEntries_repo (mk mv : Node) (lks lvs rks rvs : List Val) :
    copyEntries GenCfg.repo mk mv lks lvs rks rvs = copyEntries GenCfg.fixed mk mv lks lvs rks rvs :=
  copyEntries_cfg GenCfg.repo GenCfg.fixed agree_repo rvs mk mv lks lvs rks
theorem copyElems_repo (e : Node) (les res : List Val) :
    copyElems GenCfg.repo e les res = copyElems GenCfg.fixed e les res :=
  copyElems_cfg GenCfg.repo GenCfg.fixed agree_repo res e les

/-- Copy of the tree as it is, for every argument form. -/
theorem copyM_repo (n : Node) (f : Form) (r : Val) : copyM GenCfg.repo n f r = copyM GenCfg.fixed n f r :=
  copyM_cfg GenCfg.repo GenCfg.fixed agree_repo rfl n f r

/-- CopyTo of the tree as it is, for every pair of argument forms. -/
theorem copyToM_repo (n : Node) (fs fd : Form) (r l : Val) :
    copyToM GenCfg.repo n fs fd r l = copyToM GenCfg.fixed n fs fd r l :=
  copyToM_cfg GenCfg.repo GenCfg.fixed agree_repo rfl n fs fd r l

/-- The driver's observation of a copy outcome reads `cfg` twice: `copyPtrShared` (is the copy "the same
object" for pointer map keys) and, through `deqM`, the DeepEqual switches — all the same in both configurations. -/
theorem copyObsOfWith_repo (norm : Val → Val) (n : Node) (src : Val) (o : CopyOut) :
    copyObsOfWith norm GenCfg.repo n src o = copyObsOfWith norm GenCfg.fixed n src o := by
  have hs : GenCfg.repo.copyPtrShared = GenCfg.fixed.copyPtrShared := rfl
  cases o with
  | ok v s =>
    simp only [copyObsOfWith, hs]
    rw [DEQCurrent.deqM_repo_mk]
  | _ => rfl

/-- The observed Reset-then-CopyTo history reads `cfg` through `resetN` and `copyN` only. -/
theorem cycleModelWith_repo (norm : Val → Val) (n : Node) : ∀ (srcs : List Val) (d : Val),
    cycleModelWith norm GenCfg.repo n d srcs = cycleModelWith norm GenCfg.fixed n d srcs
  | [], d => by simp only [cycleModelWith]
  | s :: rest, d => by
    have ih := cycleModelWith_repo norm n rest
    simp only [cycleModelWith, ResetCurrent.resetN_repo, copyN_repo, ih]

end Inspector.CopyCurrent
