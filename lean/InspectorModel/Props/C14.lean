/-
Props/C14.lean — property theorems for C14 (every supported declaration set yields complete, compiling inspectors).
Compilation itself is established per enumerated declaration by compiling; `uncompilable` (Gen/Select.lean)
is a model of the emitter's type discipline that must agree with the Go compiler on the enumerated slice.
-/
import InspectorModel.Gen.Select
import InspectorModel.Proofs.C14
namespace Inspector.C14

/-- The registry returns what was registered last under a name. -/
theorem registry_get_put {α : Type} (r : List (String × α)) (n : String) (v : α) :
    registryGet (registryPut r n v) n = some v := by
  simp [registryGet, registryPut]

/-- Registering under another name does not disturb a name. -/
theorem registry_get_put_other {α : Type} (r : List (String × α)) (n m : String) (v : α) (h : (n == m) = false) :
    registryGet (registryPut r n v) m = registryGet r m := by
  simp [registryGet, registryPut, h]

/-- No black-listed type is selected. -/
theorem blacklisted_not_selected (bl names seen : List String) (n : String) (h : n ∈ bl) :
    n ∉ selectTypes bl names seen := by
  induction names generalizing seen with
  | nil => simp [selectTypes]
  | cons m rest ih =>
    unfold selectTypes
    split
    · exact ih seen
    · rename_i hc
      simp only [List.mem_cons, not_or]
      constructor
      · intro hnm
        subst hnm
        simp [h] at hc
      · exact ih (m :: seen)

/-- No type is selected twice (one file per type). -/
theorem selected_once (bl names seen : List String) :
    (selectTypes bl names seen).Nodup ∧ ∀ n ∈ selectTypes bl names seen, n ∉ seen := by
  induction names generalizing seen with
  | nil => simp [selectTypes]
  | cons m rest ih =>
    unfold selectTypes
    split
    · exact ih seen
    · rename_i hc
      have ih' := ih (m :: seen)
      refine ⟨?_, ?_⟩
      · rw [List.nodup_cons]
        refine ⟨?_, ih'.1⟩
        intro hm
        have := ih'.2 m hm
        simp at this
      · intro n hn
        rw [List.mem_cons] at hn
        cases hn with
        | inl h =>
          subst h
          intro hs
          simp [hs] at hc
        | inr h =>
          have := ih'.2 n h
          intro hs
          exact this (List.mem_cons_of_mem _ hs)

/-- What the compilability model accepts meets the structural hypothesis (`EmitOK`) under which the
compare (C04) and length (C10) theorems are proved: the two models fit together. The model's verdict itself
is tied to the Go compiler on every run (CM records: every enumerated shape, predicted vs `go build`). -/
theorem compilable_meets_EmitOK (root : Node) (hwf : NodeWF root = true) (h : uncompilable root = none) :
    EmitOK root = true := compilable_EmitOK root hwf h

/-- Finding `uncompilable-ptr-bytes-alone` (repaired in /repo): `type T struct { P *[]byte }` — the model of the
emitter at the pinned commit rejects it (missing `bytes` import), the model of the emitter as it is accepts it;
(the rules of the compilability model that belong to repaired defects are the fields of `EmitRules`). -/
def soloPtrBytes : Node :=
  .struct { typn := "T" } [.slice { typn := "[]byte", typu := "[]byte", name := "P", ptr := true, hasb := true, hasc := true }
    (.basic { typn := "byte", typu := "byte" })]
theorem original_rejects_ptr_bytes_alone :
    uncompilableOriginal soloPtrBytes = some "ptr-bytes-alone" ∧ uncompilable soloPtrBytes = none := by decide
/-- Finding `uncompilable-ptr-scalar-field-in-struct-value` (repaired in /repo as a side effect of `fix: DeepEqual
tests the nil-ness of pointer-to-scalar fields on the field, not on its parent`): `type In struct { P *int32 };
type T struct { F In }` — DeepEqual of the pinned commit emitted `lx == nil` on the struct value `F`; the emitter
as it is names the field. -/
def valueStructPtrField : Node :=
  .struct { typn := "T" } [.struct { typn := "In", name := "F" } [.basic { typn := "int32", typu := "int32", name := "P", ptr := true }]]
theorem original_rejects_value_struct_ptr_field :
    uncompilableOriginal valueStructPtrField = some "ptr-scalar-field-in-struct-value" ∧
    uncompilable valueStructPtrField = none := by decide

end Inspector.C14
