/-
Spec/StaticSpec.lean — C16: the static inspector treats scalars, strings and bytes like the native values.
-/
import InspectorModel.Lib.Static
import InspectorModel.Spec.CmpSpec
import InspectorModel.Spec.Conv
import InspectorModel.Spec.CopySpec
namespace Inspector

/-- Compare: native comparison with the operand parsed for the kind (wide: int64 / uint64 / float64). -/
def staticCmpAccepts (s : Src) (op : Op) (right : Seg) (o : CmpOut) : Bool :=
  if s.kind == .foreign then o == .set false || o == .untouched else
  if s.v.isNilPtr then true else
  let operand : Option Val := match s.kind.family with
    | .signed => right.pi.map Val.int
    | .unsigned => right.pu.map Val.uint
    | .float => (match right.pf with | .ok fx => some (.float fx) | _ => none)
    | .bool => right.pb.map Val.bool
    | .text => some (.str right.text)
    | .foreign => none
  match operand with
  | none => o != .panic                      -- unparsable (or not nameable) operand: unspecified, but no panic
  | some r =>
    let l : Val := if s.kind.family == .text then .str (elemText s.v) else s.v
    let opOk := if s.kind == .bool || s.kind == .bytes then (op == 1 || op == 2) else (1 ≤ op && op ≤ 6)
    if !opOk then o != .panic else
    match nativeCmp op l r with
    | some b => o == .set b
    | none => o != .panic

/-- Same family and equal (floats: within the tolerance; text: by content). `none`: cross-family. -/
def staticSameFamilyEq (l r : Src) : Option Bool :=
  if l.kind == .foreign || r.kind == .foreign then none else
  if l.v.isNilPtr || r.v.isNilPtr then none else
  if l.kind.family != r.kind.family then none else
  match l.kind.family with
  | .float => (match l.v, r.v with | .float a, .float b => some (decide ((a - b).natAbs ≤ 1048)) | _, _ => none)
  | .text => some (elemText l.v == elemText r.v)
  | _ => (valEq l.v r.v)

/-- DeepEqual: same answer in both orders for all operands; within one family true exactly for equal values;
an operand of any other type yields false. -/
def staticDeqAccepts (l r : Src) (olr orl : SDeq) : Bool :=
  if l.v.isNilPtr || r.v.isNilPtr then true else       -- typed-nil pointers: C02's territory
  let noAbort := olr != .panic && olr != .diverge && orl != .panic && orl != .diverge
  noAbort && olr == orl &&
  (if l.kind == .foreign || r.kind == .foreign then olr == .f
   else match staticSameFamilyEq l r with
     | some b => olr == (if b then .t else .f)
     | none => true)

def staticLcAccepts (isCap : Bool) (s : Src) (o : LcOut) : Bool :=
  if s.v.isNilPtr && s.kind != .foreign then true else
  match s.v with
  | .str t => if s.kind == .string then (if isCap then true else o == .val t.length) else o == .val 0
  | .bytes _ d c => if s.kind == .bytes then o == .val (if isCap then c else d.length) else o == .val 0
  | _ => o == .val 0 || o == .unsupported

/-- Observation of Copy / CopyTo / Reset of the static inspector. -/
structure SObs where
  tag : String
  kind : String := ""
  shared : Nat := 0
  v : Val := .nilptr

def sobsOf : SCopy → SObs
  | .ok k v => { tag := "ok", kind := (if k == .bytes then "bytes" else k.name), v := v }
  | .unsupported => { tag := "unsupported" }
  | .mustPointer => { tag := "mustpointer" }
  | .panic => { tag := "panic" }

/-- Copy: an equal value of the same kind sharing no bytes with the original; any other type is unsupported. -/
def staticCopyAccepts (s : Src) (o : SObs) : Bool :=
  if s.kind == .foreign then o.tag == "unsupported"
  else if s.v.isNilPtr then true
  else o.tag == "ok" && o.shared == 0 && valContentEq o.v s.v && o.kind == (if s.kind == .bytes then "bytes" else s.kind.name)

/-- What CopyTo is observed to do, destination described by the harness tokens `dk` / `dform` ("v", "p", "pn"). -/
def staticCopyToObs (c : LibCfg) (s : Src) (dkind : DynKind) (dk dform : String) : SObs :=
  let r := sobsOf (staticCopyTo c s dkind (dform != "v") (dform == "pn"))
  if r.tag == "ok" then { r with kind := dk } else r

def staticCopyToAccepts (s : Src) (dkind : DynKind) (dform : String) (o : SObs) : Bool :=
  if s.kind == .foreign then o.tag == "unsupported"
  else if s.v.isNilPtr || dform == "pn" then true
  else if dform == "p" && dkind == s.kind then o.tag == "ok" && o.shared == 0 && valContentEq o.v s.v
  else o.tag == "mustpointer" || o.tag == "unsupported"

/-- What Reset is observed to do (the harness cannot tell a reset nil target from an untouched value). -/
def staticResetObs (c : LibCfg) (s : Src) : SObs :=
  let o : SObs :=
    if s.kind == .foreign then { tag := "okvalue" }     -- no arm: nil error, nothing happens
    else if !s.isPtr then { tag := "okvalue" }
    else match staticReset c s with
      | some v => { tag := "ok", v := v }
      -- a typed-nil pointer: the numeric arms write through it; `*string` never did, and since
      -- `fix: StaticInspector.Reset …` the `*[]byte` arm tests for nil as well
      -- … and since `fix: StaticInspector dereferenced a typed-nil pointer` Reset returns at once for any of them
      | none => if !c.staticNilPtrPanics || s.kind == .string || (s.kind == .bytes && !c.staticResetTextLost) then { tag := "okvalue" } else { tag := "panic" }
  if o.tag == "ok" && s.v.isNilPtr then { tag := "okvalue" } else o

def staticResetAccepts (s : Src) (o : SObs) : Bool :=
  if s.kind == .foreign then o.tag == "unsupported" || o.tag == "okvalue"
  else if s.v.isNilPtr then true
  else if s.isPtr then o.tag == "ok" && isEmptyV o.v
  else o.tag != "panic"

/-! Hypotheses of the C16 theorems (decidable; evaluated by the driver). -/

/-- The part of `Src.wt` Length/Capacity need: a `string` operand does not carry a byte slice and vice versa. -/
def textSrcTyped (s : Src) : Bool :=
  match s.kind, s.v with
  | .string, .bytes _ _ _ => false
  | .bytes, .str _ => false
  | _, _ => true

/-- The destination forms the harness produces: value, pointer, nil pointer. -/
def dformOK (dform : String) : Bool := dform == "v" || dform == "p" || dform == "pn"

end Inspector
