// Command shipped runs the correspondence harness over the committed testobj_ins only (development aid).
package main

import (
	"verifharness/corr"

	"github.com/koykov/inspector/testobj"
	"github.com/koykov/inspector/testobj_ins"
)

func main() {
	x := "/repo/testdata/"
	corr.Register("shipped", "TestObject", testobj.TestObject{}, testobj_ins.TestObjectInspector{}, x+"testobject.xml")
	corr.Register("shipped", "TestObject1", testobj.TestObject1{}, testobj_ins.TestObject1Inspector{}, x+"testobject1.xml")
	corr.Register("shipped", "TestFinance", testobj.TestFinance{}, testobj_ins.TestFinanceInspector{}, x+"testfinance.xml")
	corr.Register("shipped", "TestFlag", testobj.TestFlag{}, testobj_ins.TestFlagInspector{}, x+"testflag.xml")
	corr.Register("shipped", "TestFloatSlice", testobj.TestFloatSlice{}, testobj_ins.TestFloatSliceInspector{}, x+"testfloatslice.xml")
	corr.Main()
}
