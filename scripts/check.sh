#!/bin/sh
# check.sh <property id> [quick|thorough] — see scripts/check.py
cd "$(dirname "$0")/.." || exit 2
exec python3 scripts/check.py "$@"
