/-
Props/C03.lean — property theorems for C03 (Set stores the value at the path and changes nothing else).

`set_correct` is the property at full strength for the *repaired* emitter and assignment library
(`GenCfg.fixed`): for every well-formed tree whose inspector compiles, every well-typed value a Go
program can hold, every path, every assigned value and both buffer modes, the destination after
Set / SetWithBuffer is accepted by the independent specification `setAccepts`: nothing off the path
changed (`offPathEq`), and where the path denotes an existing scalar / string / bytes element and the
conversion table says `store`, reading the path back yields the converted value. The outcome mapping is
the driver's (`opSet`): `.ok r` / `.err r` / `.panic`.

`set_correct_dropCaps` is the same statement for the destination after `dropCaps` — what the driver hands
to `setAccepts` (`setObsOf`), up to `canon`, the driver-side sort of map entries (not a total Lean function), which cannot be reasoned
about; `setAccepts` looks map entries up by key and is insensitive to their order when keys are distinct.

Hypotheses beyond C01's (each a decidable `Bool`, Spec/SetHyps.lean, namespace `Inspector.C03`):
* `EmitOK n`   — the inspector compiles (a `[]byte` map value / slice element has no assignment emitted);
* `ValOK v`    — nil maps / slices are empty and non-pointer map keys are pairwise distinct;
* `DepthOK n`  — type nesting ≤ 64 value levels, the fuel of `dropCaps` which `setAccepts` compares under;
* `SrcWT src`  — the assigned value's dynamic kind describes its value.
Each is necessary: section `Necessity` has a rejected input of the repaired model for each of them.

The model of the current tree differs on the classes `set-lost-update`, `set-nil-map-store`,
`set-nil-leaf-ptr`, `negative-index` (`repo_not_correct_*`).
-/
import InspectorModel.Proofs.C03Stored
import InspectorModel.Proofs.C03Depth
import InspectorModel.Proofs.C03Drop
namespace Inspector.C03

/-- Empty path: SetWithBuffer returns at once; the destination is untouched (compiler.go:373). -/
theorem empty_path (cfg : GenCfg) (n : Node) (f : Form) (v : Val) (s : Src) (nb : Bool) :
    (match setM cfg n f v [] s nb with | .ok r => r == v | _ => false) = (v == v) := rfl

/-- What the repaired model leaves behind, in the terms `setAccepts` asks about. -/
theorem setM_fixed_out (n : Node) (v : Val) (p : List Seg) (src : Src) (f : Form) (nb : Bool)
    (hf : rootOf f = .ok) (hroot : RootOK n = true) (hwf : NodeWF n = true) (hem : EmitOK n = true)
    (hwt : WT n v = true) (hok : ValOK v = true) (hd : DepthOK n = true) (hsrc : SrcWT src = true) :
    ∃ a, (setM GenCfg.fixed n f v p src nb = .ok a ∨ setM GenCfg.fixed n f v p src nb = .err a) ∧
      offPathEq n (dropCaps v) (dropCaps a) p = true ∧
      (∀ res sv, nav n v p = .found res false → res.node.isLeaf = true → res.node.ptr = false →
        specConv (leafKind res.node) src = .store sv →
        ∃ res', nav n a p = .found res' false ∧ valContentEq res'.val sv = true) ∧
      vdepth v ≤ 64 ∧ vdepth a ≤ 64 := by
  simp only [DepthOK, decide_eq_true_eq] at hd
  have hdv : vdepth v ≤ 64 := by have := WT_vdepth n v hwt; omega
  simp only [RootOK, Bool.and_eq_true, Bool.not_eq_true'] at hroot
  have hr : rootOfC GenCfg.fixed f = .ok := by
    unfold rootOfC
    rw [hf]
  cases p with
  | nil =>
    refine ⟨v, Or.inl rfl, offPathEq_nil _ _ _, ?_, hdv, hdv⟩
    intro res sv hnav hl _ _
    simp only [nav, navV] at hnav
    injection hnav with h1 _
    subst h1
    rw [hroot.2] at hl
    cases hl
  | cons s rest =>
    have fr := setN_frame src nb (s :: rest) n v false true hwf hwt hok hd
    have st := fun res sv => setN_stored src nb sv hsrc (s :: rest) n v false true false res hwf hem hwt hok hd
      (isBytes_le_isLeaf n hroot.2)
    unfold setM
    simp only [hr]
    generalize setN GenCfg.fixed n false true v (s :: rest) src nb = r at fr st
    obtain ⟨h1, h2, h3⟩ := fr
    refine ⟨r.v, ?_, ?_, ?_, hdv, by omega⟩
    · cases hfl : r.flow with
      | panic => exact absurd hfl h1
      | err => right; rfl
      | ret => left; rfl
      | cont => left; rfl
    · rw [dropCaps_eq_D v hdv, dropCaps_eq_D r.v (by omega)]
      exact h3
    · intro res sv hnav hl hp hsc
      exact st res sv hnav hl hp hsc

/-- C03 for the repaired emitter and library, every way a non-nil root reaches the inspector, with and
without a buffer (`nb`). -/
theorem set_correct (n : Node) (v : Val) (p : List Seg) (src : Src) (f : Form) (nb : Bool)
    (hf : rootOf f = .ok) (hroot : RootOK n = true) (hwf : NodeWF n = true) (hem : EmitOK n = true)
    (hwt : WT n v = true) (hok : ValOK v = true) (hd : DepthOK n = true) (hsrc : SrcWT src = true) :
    setAccepts n v p src (setM GenCfg.fixed n f v p src nb) = true := by
  obtain ⟨a, ho, hfr, hst, _, _⟩ := setM_fixed_out n v p src f nb hf hroot hwf hem hwt hok hd hsrc
  have key : ∀ o, (o = SetOut.ok a ∨ o = SetOut.err a) → setAccepts n v p src o = true := by
    intro o ho
    unfold setAccepts
    split
    · rfl
    · rcases ho with ho | ho <;> subst ho <;> simp only [hfr, Bool.true_and]
      all_goals
        split
        · rename_i res hnav
          split
          · rename_i hc
            simp only [Bool.and_eq_true, Bool.not_eq_true'] at hc
            split
            · rename_i sv hsc
              obtain ⟨res', hn', hce⟩ := hst res sv hnav hc.1 hc.2 hsc
              rw [hn']
              exact hce
            · rfl
          · rfl
        · rfl
  exact key _ ho

/-- What the driver's `setObsOf` does to an outcome before it is judged, up to the order of map entries
(`canon`, the driver-side sort, is not expressible here): capacities and nil-versus-empty are forgotten. -/
def dropOut : SetOut → SetOut
  | .ok r => .ok (dropCaps r)
  | .err r => .err (dropCaps r)
  | .panic => .panic

/-- `set_correct` for the normalised destination (what the driver hands to `setAccepts`, before `canon`). -/
theorem set_correct_dropCaps (n : Node) (v : Val) (p : List Seg) (src : Src) (f : Form) (nb : Bool)
    (hf : rootOf f = .ok) (hroot : RootOK n = true) (hwf : NodeWF n = true) (hem : EmitOK n = true)
    (hwt : WT n v = true) (hok : ValOK v = true) (hd : DepthOK n = true) (hsrc : SrcWT src = true) :
    setAccepts n v p src (dropOut (setM GenCfg.fixed n f v p src nb)) = true := by
  obtain ⟨a, ho, hfr, hst, hdv, hda⟩ := setM_fixed_out n v p src f nb hf hroot hwf hem hwt hok hd hsrc
  have hDa : dropCaps a = D a := dropCaps_eq_D a hda
  have hDDa : dropCaps (dropCaps a) = dropCaps a := by
    rw [hDa, dropCaps_eq_D (D a) (by rw [vdepth_D]; exact hda), D_idem]
  have key : ∀ o, (o = SetOut.ok (dropCaps a) ∨ o = SetOut.err (dropCaps a)) → setAccepts n v p src o = true := by
    intro o ho
    unfold setAccepts
    split
    · rfl
    · rcases ho with ho | ho <;> subst ho <;> simp only [hDDa, hfr, Bool.true_and]
      all_goals
        split
        · rename_i res hnav
          split
          · rename_i hc
            simp only [Bool.and_eq_true, Bool.not_eq_true'] at hc
            split
            · rename_i sv hsc
              obtain ⟨res', hn', hce⟩ := hst res sv hnav hc.1 hc.2 hsc
              have hn2 := navV_D_found p n a false res' hn'
              rw [hDa]
              unfold nav
              rw [hn2]
              exact valContentEq_D _ _ (specConv_store_flat _ _ _ hsc) hce
            · rfl
          · rfl
        · rfl
  rcases ho with ho | ho <;> rw [ho] <;> simp only [dropOut]
  · exact key _ (Or.inl rfl)
  · exact key _ (Or.inr rfl)

/-- A typed-nil root is refused like a foreign argument by the repaired emitter: destination untouched. -/
theorem set_nil_root (n : Node) (v : Val) (p : List Seg) (src : Src) (f : Form) (nb : Bool) (hf : rootOf f ≠ .ok) :
    (match setM GenCfg.fixed n f v p src nb with | .ok r => r == v | _ => false) = (v == v) := by
  cases p with
  | nil => rfl
  | cons s rest => cases f <;> simp [rootOf] at hf <;> rfl

section NonVacuity
/-- `struct { L []int; P *int; M map[string]struct{ A int } }` with `L = [3]`, `P = nil`, `M = {"k": {7}}`. -/
def exNode : Node :=
  .struct { typn := "T" } [
    .slice { typn := "[]int", name := "L" } (.basic { typn := "int", typu := "int" }),
    .basic { typn := "int", typu := "int", name := "P", ptr := true },
    .map { typn := "map[string]S", name := "M" } (.basic { typn := "string", typu := "string" })
      (.struct { typn := "S" } [.basic { typn := "int", typu := "int", name := "A" }])]
def exVal : Val := .struct [.slice false [.int 3] 1, .nilptr, .map false [.str (strBytes "k")] [.struct [.int 7]]]
/-- `map[string]int`, nil. -/
def exMapNode : Node := .map { typn := "M" } (.basic { typn := "string", typu := "string" }) (.basic { typn := "int", typu := "int" })
def exMapVal : Val := .map true [] []
def seg (t : String) (pi : Option Int := none) : Seg := { text := strBytes t, pi := pi }
def five : Src := { kind := .int, v := .int 5 }

/-- The hypotheses of `set_correct` are met by concrete non-trivial inputs … -/
example : RootOK exNode = true ∧ NodeWF exNode = true ∧ EmitOK exNode = true ∧ WT exNode exVal = true ∧
    ValOK exVal = true ∧ DepthOK exNode = true ∧ SrcWT five = true := by decide
example : RootOK exMapNode = true ∧ NodeWF exMapNode = true ∧ EmitOK exMapNode = true ∧ WT exMapNode exMapVal = true ∧
    ValOK exMapVal = true ∧ DepthOK exMapNode = true := by decide
/-- … on which the repaired model stores the value: `L.0 = 5`, `M.k.A = 5` (a struct held by value in a map). -/
example : (match setM GenCfg.fixed exNode .ptr exVal [seg "L", seg "0" (some 0)] five true with
    | .ok r => r == .struct [.slice false [.int 5] 1, .nilptr, .map false [.str (strBytes "k")] [.struct [.int 7]]]
    | _ => false) = true := by decide
example : (match setM GenCfg.fixed exNode .ptr exVal [seg "M", seg "k", seg "A"] five true with
    | .ok r => r == .struct [.slice false [.int 3] 1, .nilptr, .map false [.str (strBytes "k")] [.struct [.int 5]]]
    | _ => false) = true := by decide

/-- Finding `set-lost-update` (repaired in /repo): the emitter at the pinned commit assigns to a copy of the struct
held by value in a map (`M.k.A`) and returns before the write-back; the tree as it is stores it. -/
theorem repo_not_correct_lost_update :
    setAccepts exNode exVal [seg "M", seg "k", seg "A"] five
      (setM GenCfg.original exNode .ptr exVal [seg "M", seg "k", seg "A"] five true) = false ∧
    setAccepts exNode exVal [seg "M", seg "k", seg "A"] five
      (setM GenCfg.repo exNode .ptr exVal [seg "M", seg "k", seg "A"] five true) = true := by
  decide

/-- Finding `set-scalar-elem-lost` (repaired in /repo): the same for an element of a slice of scalars (`L.0`) — the
tree at the pinned commit lost the update, the tree as it is stores it. -/
theorem repo_not_correct_scalar_elem_lost :
    setAccepts exNode exVal [seg "L", seg "0" (some 0)] five
      (setM GenCfg.original exNode .ptr exVal [seg "L", seg "0" (some 0)] five true) = false ∧
    setAccepts exNode exVal [seg "L", seg "0" (some 0)] five
      (setM GenCfg.repo exNode .ptr exVal [seg "L", seg "0" (some 0)] five true) = true := by
  decide

/-- Known finding `set-nil-map-store`: a nil root map is stored into (`assignment to entry in nil map`). -/
theorem repo_not_correct_nil_map_store :
    setAccepts exMapNode exMapVal [seg "a"] five (setM GenCfg.original exMapNode .ptr exMapVal [seg "a"] five true) = false := by
  decide

/-- Known finding `set-nil-leaf-ptr`: a nil `*int` field is handed to AssignBuf, which writes through it. -/
theorem repo_not_correct_nil_leaf_ptr :
    setAccepts exNode exVal [seg "P"] five (setM GenCfg.original exNode .ptr exVal [seg "P"] five true) = false := by
  decide

/-- Known finding `negative-index`: `L.-1` reaches `s[-1]`. -/
theorem repo_not_correct_negative_index :
    setAccepts exNode exVal [seg "L", seg "-1" (some (-1))] five
      (setM GenCfg.original exNode .ptr exVal [seg "L", seg "-1" (some (-1))] five true) = false := by
  decide

/-- … while the repaired model is accepted on each of them (instances of `set_correct`). -/
example :
    setAccepts exNode exVal [seg "L", seg "0" (some 0)] five (setM GenCfg.fixed exNode .ptr exVal [seg "L", seg "0" (some 0)] five true) = true ∧
    setAccepts exMapNode exMapVal [seg "a"] five (setM GenCfg.fixed exMapNode .ptr exMapVal [seg "a"] five true) = true ∧
    setAccepts exNode exVal [seg "P"] five (setM GenCfg.fixed exNode .ptr exVal [seg "P"] five true) = true := by
  decide
end NonVacuity

section Necessity
/-- `ValOK` is needed (duplicate keys): on a "map" with the key `k` twice the specification rejects even
the no-op (an unknown field below the entry), because `offEntries` looks every entry up by its key. -/
theorem ValOK_needed :
    let n : Node := .map { typn := "M" } (.basic { typn := "string", typu := "string" })
      (.struct { typn := "S" } [.basic { typn := "int", typu := "int", name := "A" }])
    let v : Val := .map false [.str (strBytes "k"), .str (strBytes "k")] [.struct [.int 1], .struct [.int 2]]
    WT n v = true ∧ ValOK v = false ∧
      setAccepts n v [seg "k", seg "Zzz"] five (setM GenCfg.fixed n .ptr v [seg "k", seg "Zzz"] five true) = false := by
  decide

/-- `EmitOK` is needed: for a `[]byte` map value the emitter produces no assignment at all (such an
inspector does not compile, C14 class `bytes-element`). -/
theorem EmitOK_needed :
    let n : Node := .map { typn := "M" } (.basic { typn := "string", typu := "string" })
      (.slice { typn := "[]byte", typu := "[]byte" } (.basic { typn := "byte", typu := "byte" }))
    let v : Val := .map false [.str (strBytes "k")] [.bytes false [1] 1]
    WT n v = true ∧ NodeWF n = true ∧ ValOK v = true ∧ EmitOK n = false ∧
      setAccepts n v [seg "k"] five (setM GenCfg.fixed n .ptr v [seg "k"] five true) = false := by
  decide

/-- `SrcWT` is needed: for an operand tagged `int` that holds a bool the conversion table and the library
model disagree (no Go value is like that). -/
theorem SrcWT_needed :
    let n : Node := .struct { typn := "T" } [.basic { typn := "bool", typu := "bool", name := "B" }]
    let bad : Src := { kind := .int, v := .bool true }
    SrcWT bad = false ∧
      setAccepts n (.struct [.bool false]) [seg "B"] bad (setM GenCfg.fixed n .ptr (.struct [.bool false]) [seg "B"] bad true) = false := by
  decide

/-- `struct{ F *struct{ F *… *struct{ A int; B []byte } } }`, `k+1` pointer levels; the value has every
pointer set but the innermost. -/
def deepNode : Nat → Node
  | 0 => .struct { typn := "T0", name := "F", ptr := true } [
      .basic { typn := "int", typu := "int", name := "A" },
      .slice { typn := "[]byte", typu := "[]byte", name := "B" } (.basic { typn := "byte", typu := "byte" })]
  | k + 1 => .struct { typn := "T", name := "F", ptr := true } [deepNode k]
def deepVal : Nat → Val
  | 0 => .nilptr
  | k + 1 => .ptr (.struct [deepVal k])
def deepPath : Nat → List Seg
  | 0 => [seg "A"]
  | k + 1 => seg "F" :: deepPath k
def rootN (k : Nat) : Node := .struct { typn := "R" } [deepNode k]
def rootV (k : Nat) : Val := .struct [deepVal k]

set_option maxRecDepth 100000 in
/-- `DepthOK` is needed: `setAccepts` compares under `dropCaps`, which normalises only 64 levels deep. Below
that a created `[]byte` field (nil) is compared with its normalised zero value (empty) and rejected. -/
theorem DepthOK_needed :
    RootOK (rootN 31) = true ∧ NodeWF (rootN 31) = true ∧ EmitOK (rootN 31) = true ∧
    WT (rootN 31) (rootV 31) = true ∧ ValOK (rootV 31) = true ∧ DepthOK (rootN 31) = false ∧
    setAccepts (rootN 31) (rootV 31) (deepPath 32) five
      (setM GenCfg.fixed (rootN 31) .ptr (rootV 31) (deepPath 32) five true) = false := by
  decide
end Necessity

/-! ### The tree as it is

Since `fix: Set below a struct or map held by value in a map was lost` no defect switch of the emitter model is on:
the configuration that mirrors the tree *is* the repaired one. -/
section CurrentTree
theorem repo_is_fixed : GenCfg.repo = GenCfg.fixed := rfl

/-- C03 for the emitter as it stands. -/
theorem set_current (n : Node) (v : Val) (p : List Seg) (src : Src) (f : Form) (nb : Bool)
    (hf : rootOf f = .ok) (hroot : RootOK n = true) (hwf : NodeWF n = true) (hem : EmitOK n = true)
    (hwt : WT n v = true) (hok : ValOK v = true) (hd : DepthOK n = true) (hsrc : SrcWT src = true) :
    setAccepts n v p src (setM GenCfg.repo n f v p src nb) = true := by
  rw [repo_is_fixed]; exact set_correct n v p src f nb hf hroot hwf hem hwt hok hd hsrc

theorem set_current_dropCaps (n : Node) (v : Val) (p : List Seg) (src : Src) (f : Form) (nb : Bool)
    (hf : rootOf f = .ok) (hroot : RootOK n = true) (hwf : NodeWF n = true) (hem : EmitOK n = true)
    (hwt : WT n v = true) (hok : ValOK v = true) (hd : DepthOK n = true) (hsrc : SrcWT src = true) :
    setAccepts n v p src (dropOut (setM GenCfg.repo n f v p src nb)) = true := by
  rw [repo_is_fixed]; exact set_correct_dropCaps n v p src f nb hf hroot hwf hem hwt hok hd hsrc
end CurrentTree

end Inspector.C03
