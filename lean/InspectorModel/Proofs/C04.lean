/-
Proofs/C04.lean — the repaired compare-mode emitter model agrees with the native comparison of the element
native navigation reaches (property C04).
-/
import InspectorModel.Proofs.C01
import InspectorModel.Spec.CmpSpec
set_option linter.unusedSimpArgs false
namespace Inspector

theorem bytesLt_tri : ∀ (a b : Bytes), (bytesLt b a || a == b) = !bytesLt a b
  | [], [] => by simp [bytesLt]
  | [], _ :: _ => by simp [bytesLt]
  | _ :: _, [] => by simp [bytesLt]
  | x :: xs, y :: ys => by
    have ih := bytesLt_tri xs ys
    simp only [bytesLt]
    by_cases h1 : x < y
    · have h2 : ¬ y < x := by
        intro h; exact absurd (UInt8.lt_trans h1 h) (UInt8.lt_irrefl _)
      have hne : ¬ x = y := by intro h; subst h; exact UInt8.lt_irrefl _ h1
      simp [h1, h2, hne]
    · by_cases h2 : y < x
      · have hne : ¬ x = y := by intro h; subst h; exact UInt8.lt_irrefl _ h2
        simp [h1, h2, hne]
      · have heq : x = y := by
          have := UInt8.le_antisymm (UInt8.not_lt.mp h2) (UInt8.not_lt.mp h1)
          exact this
        subst heq
        simp only [h1, if_false, Bool.false_eq_true]
        simpa using ih

/-- On two scalars of one ordered kind, `<`, `>` and `==` are a trichotomy. -/
theorem val_tri (l r : Val) (eq lt gt : Bool) (h1 : valEq l r = some eq) (h2 : valLt l r = some lt)
    (h3 : valLt r l = some gt) : (gt || eq) = !lt ∧ (lt || eq) = !gt := by
  cases l <;> cases r <;> simp [valEq, valLt] at h1 h2 h3
  case int.int a b =>
    subst h1 h2 h3
    rcases Int.lt_trichotomy a b with h | h | h
    · have h' : ¬ b < a := by omega
      have h'' : ¬ a = b := by omega
      simp [h, h', h'']
    · subst h; simp
    · have h' : ¬ a < b := by omega
      have h'' : ¬ a = b := by omega
      simp [h, h', h'']
  case uint.uint a b =>
    subst h1 h2 h3
    rcases Nat.lt_trichotomy a b with h | h | h
    · have h' : ¬ b < a := by omega
      have h'' : ¬ a = b := by omega
      simp [h, h', h'']
    · subst h; simp
    · have h' : ¬ a < b := by omega
      have h'' : ¬ a = b := by omega
      simp [h, h', h'']
  case float.float a b =>
    subst h1 h2 h3
    rcases Int.lt_trichotomy a b with h | h | h
    · have h' : ¬ b < a := by omega
      have h'' : ¬ a = b := by omega
      simp [h, h', h'']
    · subst h; simp
    · have h' : ¬ a < b := by omega
      have h'' : ¬ a = b := by omega
      simp [h, h', h'']
  case str.str a b =>
    subst h1 h2 h3
    constructor
    · exact bytesLt_tri a b
    · have := bytesLt_tri b a
      rw [← this]
      congr 1
      by_cases hab : a = b
      · subst hab; rfl
      · have hba : ¬ b = a := fun h => hab h.symm
        have e1 : (a == b) = false := by simpa using hab
        have e2 : (b == a) = false := by simpa using hba
        rw [e1, e2]

/-- The emitted six-way switch computes the native comparison on ordered scalars. -/
theorem cmpSix_native (op : Op) (l r : Val) (b lt gt : Bool) (h : nativeCmp op l r = some b)
    (hlt : valLt l r = some lt) (hgt : valLt r l = some gt) : cmpSix op l r = .set b := by
  unfold nativeCmp at h
  cases he : valEq l r with
  | none => simp [he] at h
  | some eq =>
    obtain ⟨t1, t2⟩ := val_tri l r eq lt gt he hlt hgt
    simp only [he, hlt, hgt] at h
    unfold cmpSix
    simp only [he, hlt, hgt]
    by_cases h1 : (op == 1) = true
    · simp only [h1, if_true] at h ⊢; injection h with h; rw [h]
    · simp only [h1, if_false, Bool.false_eq_true] at h ⊢
      by_cases h2 : (op == 2) = true
      · simp only [h2, if_true] at h ⊢; injection h with h; rw [h]
      · simp only [h2, if_false, Bool.false_eq_true] at h ⊢
        by_cases h3 : (op == 3) = true
        · simp only [h3, if_true] at h ⊢; injection h with h; rw [h]
        · simp only [h3, if_false, Bool.false_eq_true] at h ⊢
          by_cases h4 : (op == 4) = true
          · simp only [h4, if_true] at h ⊢; injection h with h; rw [← h, t1]
          · simp only [h4, if_false, Bool.false_eq_true] at h ⊢
            by_cases h5 : (op == 5) = true
            · simp only [h5, if_true] at h ⊢; injection h with h; rw [h]
            · simp only [h5, if_false, Bool.false_eq_true] at h ⊢
              by_cases h6 : (op == 6) = true
              · simp only [h6, if_true] at h ⊢; injection h with h; rw [← h, t2]
              · simp only [h6, if_false, Bool.false_eq_true] at h ⊢
                cases h

theorem kindOfName_bool (t : String) (h : kindOfName t = some .bool) : t = "bool" := by
  unfold kindOfName at h
  split at h <;> first | rfl | (injection h with h; cases h) | cases h

def sameCtor : Kind → Val → Bool
  | .bool, .bool _ | .sint _, .int _ | .uint _, .uint _ | .float _, .float _ | .string, .str _ => true
  | _, _ => false

theorem specKey_key_ctor (i : Info) (s : Seg) (key : Val) (kd : Kind) (hkd : kindOfName i.typu = some kd)
    (h : specKey (.basic i) s = .key key) : sameCtor kd key = true := by
  unfold specKey at h
  simp only [Node.ptr, Node.info, Node.typu, Node.typn, hkd] at h
  cases hp : i.ptr <;> simp only [hp, if_true, if_false, Bool.false_eq_true] at h
  · cases kd <;> simp only [] at h
    · cases hb : s.pb <;> simp [hb] at h; subst h; rfl
    · cases hb : s.pi <;> simp [hb] at h
      split at h <;> simp at h
      subst h; rfl
    · by_cases hby : (i.typn == "byte" || i.typu == "byte") = true
      · simp only [hby, if_true] at h; cases h
      · simp only [hby, if_false] at h
        cases hb : s.pu <;> simp [hb] at h
        split at h <;> simp at h
        subst h; rfl
    · cases hb : s.pf <;> simp [hb] at h; subst h; rfl
    · injection h with h; subst h; rfl
  · cases kd <;> simp only [] at h
    · split at h <;> cases h
    · split at h <;> cases h
    · by_cases hby : (i.typn == "byte" || i.typu == "byte") = true
      · simp only [hby, if_true] at h; cases h
      · simp only [hby, if_false] at h
        cases hs : s.pu.isSome <;> simp [hs] at h
    · split at h <;> cases h
    · cases h

theorem CmpOut.beq_refl (o : CmpOut) : (o == o) = true := by simp

/-- `writeCmp` on a pointer-typed node: only the `nil` test. -/
theorem ptr_cmp (ch : Node) (fv : Val) (op : Op) (right : Seg) (hp : ch.ptr = true) :
    cmpAcceptsElem ⟨ch, fv⟩ op right (writeCmpM ch fv op right) = true := by
  unfold cmpAcceptsElem writeCmpM
  simp only [hp, if_true]
  by_cases hn : (right.text == nilText) = true
  · simp only [hn, if_true, Bool.true_and]
    by_cases h1 : (op == 1) = true
    · simp [h1]
    · simp only [h1, if_false, Bool.false_eq_true, Bool.false_or]
      by_cases h2 : (op == 2) = true
      · simp [h2]
      · simp [h2]
  · simp [hn]

/-- `writeCmp` on a scalar, string or bytes element computes the native comparison. -/
theorem leaf_cmp (ch : Node) (fv : Val) (op : Op) (right : Seg) (hl : ch.isLeaf = true)
    (hwf : NodeWF ch = true) (hwt : WT ch fv = true) (hb : EmitOK ch = true) :
    cmpAcceptsElem ⟨ch, fv⟩ op right (writeCmpM ch fv op right) = true := by
  by_cases hp : ch.ptr = true
  · exact ptr_cmp ch fv op right hp
  · have hp' : ch.ptr = false := by simpa using hp
    cases ch with
    | struct i c => simp at hl
    | map i k v => simp at hl
    | slice i e =>
      simp only [isLeaf_slice] at hl
      have htn : i.typn = "[]byte" := by simpa using hl
      simp only [Node.ptr, Node.info] at hp'
      have hv : ∃ nl d c, fv = .bytes nl d c := by
        cases fv <;> simp_all [WT, Node.ptr, Node.info]
      obtain ⟨nl, d, c, hv⟩ := hv
      subst hv
      unfold cmpAcceptsElem writeCmpM specOperand
      simp [Node.ptr, Node.info, Node.typn, Node.typu, Node.isLeaf, Node.isBytes, Node.isBasicTyp, hp', htn, convSeg, convByName, cmpTwo, valEq, nativeCmp, valLt]
      by_cases h1 : op = 1
      · simp [h1]
      · by_cases h2 : op = 2
        · simp [h1, h2]
        · simp [h1, h2]
    | basic i =>
      simp only [Node.ptr, Node.info] at hp'
      have hwf' := hwf
      simp only [NodeWF, Bool.and_eq_true] at hwf'
      cases hkd : kindOfName i.typu with
      | none => simp [hkd] at hwf'
      | some kd =>
        have hsc : wtScalar kd fv = true := by
          cases fv <;> simp_all [WT, Node.ptr, Node.info]
        have hso : specOperand (.basic i) right = specKey (.basic i) right := by
          unfold specOperand
          simp only [Node.isBytes, Bool.false_eq_true, if_false]
          rw [withPtr_false_of_not_ptr _ (by simpa [Node.ptr, Node.info] using hp')]
        unfold cmpAcceptsElem writeCmpM
        simp only [Node.ptr, Node.info, hp', Bool.false_eq_true, if_false, isLeaf_basic, if_true, hso, Node.typn, Node.typu]
        rcases key_cases i right hwf with hk | ⟨hk, hc⟩ | ⟨hk, hpt, _⟩ | ⟨key, hk, _, hc⟩
        · rw [hk]
        · rw [hk, hc]; rfl
        · rw [hpt] at hp'; cases hp'
        · rw [hk, hc]
          simp only []
          have hct := specKey_key_ctor i right key kd hkd hk
          have hnb : (i.typn == "[]byte") = false := by
            by_cases h : i.typn = "[]byte"
            · exfalso
              rcases (by simpa using hwf'.2 : isBuiltinName i.typn = false ∨ i.typn = i.typu) with h2 | h2
              · rw [h] at h2; cases h2
              · rw [← h2, h] at hkd; cases hkd
            · simpa using h
          cases hn : nativeCmp op fv key with
          | none => rfl
          | some b =>
            simp only [hnb, Bool.false_or]
            by_cases hbool : kd = .bool
            · subst hbool
              have htu := kindOfName_bool _ hkd
              have htn : (i.typn == "bool") = true := by
                simp only [EmitOK, boolSpelled, htu, hp'] at hb
                simpa using hb
              simp only [htn, if_true]
              cases fv <;> simp [wtScalar] at hsc
              cases key <;> simp [sameCtor] at hct
              rename_i x y
              unfold nativeCmp at hn
              simp only [valEq, valLt] at hn
              unfold cmpTwo
              simp only [valEq]
              by_cases h1 : (op == 1) = true
              · simp only [h1, if_true] at hn ⊢; injection hn with hn; simp [hn]
              · simp only [h1, if_false, Bool.false_eq_true] at hn ⊢
                by_cases h2 : (op == 2) = true
                · simp only [h2, if_true] at hn; injection hn with hn; simp [hn]
                · simp [h2] at hn
            · have htn : (i.typn == "bool") = false := by
                by_cases h : i.typn = "bool"
                · exfalso
                  rcases (by simpa using hwf'.2 : isBuiltinName i.typn = false ∨ i.typn = i.typu) with h2 | h2
                  · rw [h] at h2; cases h2
                  · rw [← h2, h] at hkd
                    simp [kindOfName] at hkd
                    exact hbool hkd.symm
                · simpa using h
              simp only [htn, Bool.false_eq_true, if_false]
              have hex : ∃ lt gt, valLt fv key = some lt ∧ valLt key fv = some gt := by
                cases kd <;> cases fv <;> simp [wtScalar] at hsc <;> cases key <;> simp [sameCtor] at hct <;>
                  first | exact absurd rfl hbool | exact ⟨_, _, rfl, rfl⟩
              obtain ⟨lt, gt, hlt, hgt⟩ := hex
              rw [cmpSix_native op fv key b lt gt hn hlt hgt]
              simp

def NavR.viaTrue : NavR → Bool
  | .found _ v | .miss v | .perr v => v
  | .unspec => true

theorem navV_true_via (p : List Seg) : ∀ (n : Node) (v : Val), (navV true n v p).viaTrue = true := by
  induction p with
  | nil => intro n v; rfl
  | cons s rest ih =>
    intro n v
    unfold navV
    split
    · rfl
    split
    · rfl
    split
    all_goals first | rfl | skip
    · split
      · exact ih _ _
      · rfl
    · split
      · rfl
      · rfl
      · exact ih _ _
      · split <;> exact ih _ _
    · split
      · rfl
      · split
        · rfl
        · split
          · split
            · exact ih _ _
            · rfl
          · rfl

theorem cmpAcceptsNav_untouched (r : NavR) (op : Op) (right : Seg) (h : r.viaTrue = true) :
    cmpAcceptsNav r op right .untouched = true := by
  cases r <;> simp_all [NavR.viaTrue, cmpAcceptsNav]

theorem EmitOKs_mem (chld : List Node) (ch : Node) (h : EmitOKs chld = true) (hm : ch ∈ chld) : EmitOK ch = true := by
  induction chld with
  | nil => cases hm
  | cons c cs ih =>
    simp only [EmitOKs, Bool.and_eq_true] at h
    cases hm with
    | head => exact h.1
    | tail _ hm => exact ih h.2 hm

theorem isBytes_le_isLeaf (n : Node) (h : n.isLeaf = false) : n.isBytes = false := by
  unfold Node.isLeaf at h
  simp only [Bool.or_eq_false_iff] at h
  exact h.2

/-- An element that exists: what compare mode answers for it is accepted. -/
theorem elem_cmp (ch : Node) (fv : Val) (op : Op) (right : Seg) (hl : ch.isLeaf = true)
    (hwf : NodeWF ch = true) (hwt : WT ch fv = true) (hb : EmitOK ch = true) :
    cmpAcceptsElem ⟨ch, fv⟩ op right (writeCmpM ch fv op right) = true :=
  leaf_cmp ch fv op right hl hwf hwt hb

@[simp] theorem ptr_struct (i : Info) (c : List Node) : (Node.struct i c).ptr = i.ptr := rfl
@[simp] theorem ptr_map (i : Info) (k v : Node) : (Node.map i k v).ptr = i.ptr := rfl
@[simp] theorem ptr_slice (i : Info) (e : Node) : (Node.slice i e).ptr = i.ptr := rfl
@[simp] theorem ptr_basic (i : Info) : (Node.basic i).ptr = i.ptr := rfl

/-- `untouched` is accepted for a pointer-typed element unless the operand is the text `nil`, and for
every element that is neither a pointer nor a leaf. -/
theorem untouched_ok (n : Node) (v : Val) (op : Op) (right : Seg)
    (h : (n.ptr = true ∧ (right.text == nilText) = false) ∨ (n.ptr = false ∧ n.isLeaf = false)) :
    cmpAcceptsElem ⟨n, v⟩ op right .untouched = true := by
  unfold cmpAcceptsElem
  rcases h with ⟨h1, h2⟩ | ⟨h1, h2⟩
  · simp [h1, h2]
  · simp [h1, h2]

/-- Main lemma of C04. -/
theorem cmpN_correct (op : Op) (right : Seg) (p : List Seg) : ∀ (n : Node) (v : Val) (via : Bool),
    NodeWF n = true → WT n v = true → EmitOK n = true → (p = [] → n.isBytes = false) →
    cmpAcceptsNav (navV via n v p) op right ((cmpN GenCfg.fixed n v p op right).getD .untouched) = true := by
  induction p with
  | nil =>
    intro n v via hwf hwt hok hnb
    have hnb' := hnb rfl
    simp only [navV, cmpN, cmpAcceptsNav]
    have hcfg : GenCfg.fixed.elemNilCmpMissing = false := rfl
    simp only [hcfg, Bool.not_false, Bool.and_true]
    rw [Bool.or_eq_true]
    left
    by_cases hpn : (n.ptr && right.text == nilText) = true
    · simp only [hpn, if_true, Option.getD_some]
      exact ptr_cmp n v op right (by simp only [Bool.and_eq_true] at hpn; exact hpn.1)
    · simp only [hpn, Bool.false_eq_true, if_false]
      have hpn' : (n.ptr && right.text == nilText) = false := by simpa using hpn
      cases n with
      | basic i =>
        simp only []
        by_cases hnil : (i.ptr && v.isNilPtr) = true
        · simp only [hnil, if_true, Option.getD_some]
          apply untouched_ok
          left
          simp only [Bool.and_eq_true] at hnil
          simp only [Node.ptr, Node.info, hnil.1, Bool.true_and] at hpn' ⊢
          exact ⟨trivial, hpn'⟩
        · simp only [hnil, Bool.false_eq_true, if_false, Option.getD_some]
          exact leaf_cmp _ v op right rfl hwf hwt hok
      | struct i c =>
        simp only [Option.getD_none]
        apply untouched_ok
        by_cases hp : i.ptr = true
        · left; simp only [Node.ptr, Node.info, hp, Bool.true_and] at hpn' ⊢; exact ⟨trivial, hpn'⟩
        · right; simp only [Node.ptr, Node.info]; exact ⟨by simpa using hp, rfl⟩
      | map i k mv =>
        simp only [Option.getD_none]
        apply untouched_ok
        by_cases hp : i.ptr = true
        · left; simp only [Node.ptr, Node.info, hp, Bool.true_and] at hpn' ⊢; exact ⟨trivial, hpn'⟩
        · right; simp only [Node.ptr, Node.info]; exact ⟨by simpa using hp, rfl⟩
      | slice i e =>
        simp only [Option.getD_none]
        apply untouched_ok
        by_cases hp : i.ptr = true
        · left; simp only [Node.ptr, Node.info, hp, Bool.true_and] at hpn' ⊢; exact ⟨trivial, hpn'⟩
        · right
          simp only [Node.ptr, Node.info]
          refine ⟨by simpa using hp, ?_⟩
          simpa [Node.isLeaf, Node.isBasicTyp] using hnb'
  | cons s rest ih =>
    intro n v via hwf hwt hok _
    have hunt : ∀ (m : Node) (x : Val), cmpAcceptsNav (navV true m x rest) op right .untouched = true :=
      fun m x => cmpAcceptsNav_untouched _ op right (navV_true_via rest m x)
    cases n with
    | basic i => simp [navV, cmpAcceptsNav]
    | struct i chld =>
      by_cases hnil : (i.ptr && v.isNilPtr) = true
      · simp [navV, cmpN, hnil, Node.ptr, Node.info, cmpAcceptsNav]
      · have hnil' : (i.ptr && v.isNilPtr) = false := by simpa using hnil
        have hw := WT_deref _ _ hwt (by simpa [Node.ptr, Node.info] using hnil')
        rw [withPtr_struct] at hw
        obtain ⟨fs, hfs, hwts⟩ := WT_struct_inv _ _ _ rfl hw
        simp only [Node.ptr, Node.info] at hfs
        have hfs' : targetOf i.ptr v = Val.struct fs := hfs
        simp only [navV, cmpN, hnil', isLeaf_struct, ptr_struct, hfs, hfs', Bool.false_eq_true, if_false]
        cases hff : findField chld fs s.text with
        | none => simp [cmpAcceptsNav]
        | some cf =>
          obtain ⟨ch, fv⟩ := cf
          obtain ⟨hwtc, hmem⟩ := findField_WT _ _ _ _ _ hwts hff
          have hwfc : NodeWF ch = true := NodeWFs_mem _ _ (by simpa [NodeWF] using hwf) hmem
          have hokc : EmitOK ch = true := EmitOKs_mem _ _ (by simpa [EmitOK] using hok) hmem
          simp only []
          by_cases hl : ch.isLeaf = true
          · simp only [hl, if_true, Option.getD_some]
            cases rest with
            | nil =>
              simp only [navV, cmpAcceptsNav]
              rw [Bool.or_eq_true]; left
              exact leaf_cmp ch fv op right hl hwfc hwtc hokc
            | cons s2 r2 => simp [navV, hl, cmpAcceptsNav]
          · simp only [hl, Bool.false_eq_true, if_false]
            have hcfg : GenCfg.fixed.nilInterceptAnyDepth = false := rfl
            simp only [hcfg, Bool.false_or]
            by_cases hint : (ch.ptr && right.text == nilText && rest.isEmpty) = true
            · simp only [hint, if_true, Option.getD_some]
              simp only [Bool.and_eq_true] at hint
              have hre : rest = [] := by simpa using hint.2
              subst hre
              simp only [navV, cmpAcceptsNav]
              rw [Bool.or_eq_true]; left
              exact ptr_cmp ch fv op right hint.1.1
            · simp only [hint, Bool.false_eq_true, if_false]
              exact ih ch fv via hwfc hwtc hokc (fun _ => isBytes_le_isLeaf ch (by simpa using hl))
    | map i k mv =>
      by_cases hnil : (i.ptr && v.isNilPtr) = true
      · simp [navV, cmpN, hnil, cmpAcceptsNav]
      · have hnil' : (i.ptr && v.isNilPtr) = false := by simpa using hnil
        have hw := WT_deref _ _ hwt (by simpa using hnil')
        rw [withPtr_map] at hw
        obtain ⟨nl, ks, vs, hm, _, _, hwtv⟩ := WT_map_inv { i with ptr := false } k mv _ rfl hw
        simp only [ptr_map] at hm
        have hm' : targetOf i.ptr v = Val.map nl ks vs := hm
        simp only [NodeWF, Bool.and_eq_true] at hwf
        obtain ⟨⟨hkb, hwfk⟩, hwfm⟩ := hwf
        simp only [EmitOK, Bool.and_eq_true, Bool.not_eq_true'] at hok
        obtain ⟨⟨_, hokm⟩, hnbm⟩ := hok
        cases k with
        | basic ki =>
          simp only [navV, cmpN, hnil', isLeaf_map, ptr_map, ptr_basic, Node.typn, Node.typu, Node.info, hm, hm', Bool.false_eq_true, if_false]
          have nested : ∀ (x : Val) (via' : Bool), WT mv x = true →
              cmpAcceptsNav (navV via' mv x rest) op right ((cmpN GenCfg.fixed mv x rest op right).getD .untouched) = true :=
            fun x via' hx => ih mv x via' hwfm hx hokm (fun _ => hnbm)
          have hz : WT mv (zeroVal mv) = true := WT_zeroVal mv hwfm
          by_cases hstr : (ki.typn == "string") = true
          · have htn : ki.typn = "string" := by simpa using hstr
            have htu : ki.typu = "string" := by
              simp only [NodeWF, Bool.and_eq_true, Bool.or_eq_true, Bool.not_eq_true', beq_iff_eq] at hwfk
              rcases hwfk.2 with h2 | h2
              · rw [htn] at h2; cases h2
              · rw [← h2]; exact htn
            simp only [hstr, if_true]
            by_cases hp : ki.ptr = true
            · have hk : specKey (Node.basic ki) s = .never := by
                unfold specKey
                simp [Node.ptr, Node.info, Node.typu, hp, htu, kindOfName]
              rw [hk]
              simp only [hp, if_true, Option.getD_none]
              exact hunt _ _
            · have hk : specKey (Node.basic ki) s = .key (.str s.text) := by
                unfold specKey
                simp [Node.ptr, Node.info, Node.typu, hp, htu, kindOfName]
              rw [hk]
              simp only [hp, Bool.false_eq_true, if_false]
              cases hl : lookupKey ks vs (.str s.text) with
              | some x => exact nested x via (lookupKey_WT mv ks vs _ x hwtv hl)
              | none => simp only [Option.getD_none]; exact hunt _ _
          · have hstr' : (ki.typn == "string") = false := by simpa using hstr
            simp only [hstr', Bool.false_eq_true, if_false]
            rcases key_cases ki s hwfk with hk | ⟨hk, hc⟩ | ⟨hk, hp, hc⟩ | ⟨key, hk, hp, hc⟩
            · rw [hk]; rfl
            · rw [hk, hc]; simp [cmpAcceptsNav]
            · rw [hk]
              rcases hc with hc | ⟨key, hc⟩
              · rw [hc]; exact nested _ true hz
              · rw [hc]; simp only [hp, if_true]; exact nested _ true hz
            · rw [hk, hc]
              simp only [hp, Bool.false_eq_true, if_false]
              cases hl : lookupKey ks vs key with
              | some x => exact nested x via (lookupKey_WT mv ks vs key x hwtv hl)
              | none => exact nested _ true hz
        | _ => simp [Node.isBasicTyp] at hkb
    | slice i e =>
      by_cases hb : (i.typn == "[]byte") = true
      · simp [navV, hb, cmpAcceptsNav]
      · have hb' : (i.typn == "[]byte") = false := by simpa using hb
        have hbn : ¬ i.typn = "[]byte" := by simpa using hb
        by_cases hnil : (i.ptr && v.isNilPtr) = true
        · simp [navV, cmpN, hnil, hbn, cmpAcceptsNav]
        · have hnil' : (i.ptr && v.isNilPtr) = false := by simpa using hnil
          have hw := WT_deref _ _ hwt (by simpa using hnil')
          rw [withPtr_slice] at hw
          obtain ⟨nl, es, c, hes, hwte⟩ := WT_slice_inv { i with ptr := false } e _ rfl hb' hw
          simp only [ptr_slice] at hes
          have hes' : targetOf i.ptr v = Val.slice nl es c := hes
          have hwfe : NodeWF e = true := by simpa [NodeWF] using hwf
          simp only [EmitOK, hb', Bool.false_or, Bool.and_eq_true, Bool.not_eq_true'] at hok
          simp only [navV, cmpN, hnil', hb', isLeaf_slice, ptr_slice, hes, hes', Bool.false_eq_true, if_false]
          cases hpi : s.pi with
          | none => simp [cmpAcceptsNav]
          | some idx =>
            simp only []
            by_cases hlt : (es.length : Int) > idx
            · by_cases hneg : idx < 0
              · have hn : ¬ (0 ≤ idx ∧ idx < (es.length : Int)) := by omega
                rw [if_neg hn, if_pos hlt, if_pos hneg]
                have hcfg : GenCfg.fixed.negIndexPanics = false := rfl
                simp [hcfg, cmpAcceptsNav]
              · have hp : (0 ≤ idx ∧ idx < (es.length : Int)) := by omega
                obtain ⟨x, hx⟩ := nth?_some_of_lt es idx.toNat (by omega)
                have hwtx := nth?_WT e es _ x hwte hx
                rw [if_pos hp, if_pos hlt, if_neg hneg]
                simp only [hx]
                exact ih e x via hwfe hwtx hok.1 (fun _ => hok.2)
            · have hn : ¬ (0 ≤ idx ∧ idx < (es.length : Int)) := by omega
              rw [if_neg hn, if_neg hlt]
              simp [cmpAcceptsNav]

end Inspector
