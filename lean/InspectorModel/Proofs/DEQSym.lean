/-
Proofs/DEQSym.lean — DeepEqual of the repaired emitter model is symmetric and reflexive (C05), for well-typed
values whose maps have pairwise distinct keys.
-/
import InspectorModel.Proofs.DEQ
set_option linter.unusedSimpArgs false
set_option linter.unusedVariables false
namespace Inspector

/-! ### `==` on values is equality -/

mutual
theorem Val.eq_of_beq : ∀ (a b : Val), Val.beq a b = true → a = b
  | .bool _, b, h => by cases b <;> simp_all [Val.beq]
  | .int _, b, h => by cases b <;> simp_all [Val.beq]
  | .uint _, b, h => by cases b <;> simp_all [Val.beq]
  | .float _, b, h => by cases b <;> simp_all [Val.beq]
  | .str _, b, h => by cases b <;> simp_all [Val.beq]
  | .bytes _ _ _, b, h => by cases b <;> simp_all [Val.beq]
  | .nilptr, b, h => by cases b <;> simp_all [Val.beq]
  | .ptr v, b, h => by
    cases b <;> simp [Val.beq] at h
    rw [Val.eq_of_beq v _ h]
  | .struct fs, b, h => by
    cases b <;> simp [Val.beq] at h
    rw [Val.eq_of_beqList fs _ h]
  | .map _ ks vs, b, h => by
    cases b <;> simp [Val.beq] at h
    rw [h.1.1, Val.eq_of_beqList ks _ h.1.2, Val.eq_of_beqList vs _ h.2]
  | .slice _ es _, b, h => by
    cases b <;> simp [Val.beq] at h
    rw [h.1.1, Val.eq_of_beqList es _ h.1.2, h.2]
theorem Val.eq_of_beqList : ∀ (as bs : List Val), Val.beqList as bs = true → as = bs
  | [], bs, h => by cases bs <;> simp_all [Val.beqList]
  | a :: as, bs, h => by
    cases bs with
    | nil => simp [Val.beqList] at h
    | cons b bs =>
      simp [Val.beqList] at h
      rw [Val.eq_of_beq a b h.1, Val.eq_of_beqList as bs h.2]
end

instance : LawfulBEq Val where
  eq_of_beq {a b} h := Val.eq_of_beq a b h
  rfl {a} := Val.beq_refl a

/-! ### Association lists -/

theorem lookupKey_mem : ∀ (ks vs : List Val) (k v : Val), lookupKey ks vs k = some v → (k, v) ∈ List.zip ks vs
  | [], vs, k, v, h => by cases vs <;> simp [lookupKey] at h
  | k' :: ks, [], k, v, h => by simp [lookupKey] at h
  | k' :: ks, v' :: vs, k, v, h => by
    unfold lookupKey at h
    split at h
    · rename_i hk
      have : k' = k := by simpa using hk
      injection h with h
      subst this; subst h
      simp
    · have := lookupKey_mem ks vs k v h
      simp [this]

theorem lookupKey_of_mem : ∀ (ks vs : List Val) (k : Val), ks.length = vs.length → k ∈ ks →
    ∃ v, lookupKey ks vs k = some v
  | [], vs, k, hl, hm => by cases hm
  | k' :: ks, [], k, hl, hm => by simp at hl
  | k' :: ks, v' :: vs, k, hl, hm => by
    unfold lookupKey
    by_cases hk : (k' == k) = true
    · exact ⟨v', by simp [hk]⟩
    · simp only [hk, if_false, Bool.false_eq_true]
      have hne : k' ≠ k := by simpa using hk
      have : k ∈ ks := by
        cases hm with
        | head => exact absurd rfl hne
        | tail _ h => exact h
      exact lookupKey_of_mem ks vs k (by simpa using hl) this

theorem lookupKey_nodup : ∀ (ks vs : List Val) (k v : Val), ks.Nodup → (k, v) ∈ List.zip ks vs →
    lookupKey ks vs k = some v
  | [], vs, k, v, hn, hm => by simp at hm
  | k' :: ks, [], k, v, hn, hm => by simp at hm
  | k' :: ks, v' :: vs, k, v, hn, hm => by
    unfold lookupKey
    simp only [List.zip_cons_cons, List.mem_cons, Prod.mk.injEq] at hm
    rw [List.nodup_cons] at hn
    rcases hm with ⟨h1, h2⟩ | hm
    · subst h1; subst h2; simp
    · have hk : k ∈ ks := (List.of_mem_zip hm).1
      have hne : ¬ k' = k := fun h => hn.1 (h ▸ hk)
      have : (k' == k) = false := by simpa using hne
      simp only [this, if_false, Bool.false_eq_true]
      exact lookupKey_nodup ks vs k v hn.2 hm

theorem keysDistinct_nodup : ∀ (ks : List Val), keysDistinct ks = true → ks.Nodup
  | [], _ => List.nodup_nil
  | k :: ks, h => by
    simp only [keysDistinct, Bool.and_eq_true, Bool.not_eq_true', List.any_eq_false, beq_iff_eq] at h
    rw [List.nodup_cons]
    refine ⟨fun hm => ?_, keysDistinct_nodup ks h.2⟩
    exact h.1 k hm rfl

/-- Pigeonhole: a duplicate-free list inside a list that is not longer exhausts it. -/
theorem subset_of_nodup_length : ∀ (l1 l2 : List Val), l1.Nodup → l1 ⊆ l2 → l2.length ≤ l1.length → l2 ⊆ l1
  | [], l2, _, _, hlen => by
    have : l2 = [] := List.length_eq_zero_iff.mp (by simpa using hlen)
    subst this
    exact fun _ h => h
  | x :: t, l2, hn, hs, hlen => by
    rw [List.nodup_cons] at hn
    have hx : x ∈ l2 := hs (by simp)
    have hts : t ⊆ l2.erase x := by
      intro y hy
      have hne : y ≠ x := fun h => hn.1 (h ▸ hy)
      exact (List.mem_erase_of_ne hne).mpr (hs (by simp [hy]))
    have hl : (l2.erase x).length ≤ t.length := by
      rw [List.length_erase_of_mem hx]
      simp at hlen
      omega
    have ih := subset_of_nodup_length t (l2.erase x) hn.2 hts hl
    intro y hy
    by_cases hyx : y = x
    · subst hyx; simp
    · have := ih ((List.mem_erase_of_ne hyx).mpr hy)
      simp [this]

/-! ### The map loop, abstracted over the comparison of two values and over the keys that are never found -/

def mapLoop (skip : Val → Bool) (f : Val → Val → DeqR) : (lks lvs rks rvs : List Val) → DeqR
  | _, [], _, _ => .cont
  | [], _ :: _, _, _ => .panic
  | lk :: lks', lv :: lvs', rks, rvs =>
    match (if skip lk then none else lookupKey rks rvs lk) with
    | none => .retFalse
    | some rv =>
      match f lv rv with
      | .cont => mapLoop skip f lks' lvs' rks rvs
      | x => x

/-- The keys the emitted lookup never finds: pointers of an independent object, the nil pointer excepted. -/
def deqSkip (env : DeqEnv) (mk : Node) (k : Val) : Bool := mk.ptr && !env.ident && !k.isNilPtr

theorem deqMapVals_eq_loop (env : DeqEnv) (mk mv : Node) (π : String) (rks rvs : List Val) : ∀ (lvs lks : List Val),
    deqMapVals env mk mv π lks lvs rks rvs =
      mapLoop (deqSkip env mk) (fun a b => deqN env mv false false π a b) lks lvs rks rvs
  | [], lks => by cases lks <;> simp [deqMapVals, mapLoop]
  | lv :: lvs, [] => by simp [deqMapVals, mapLoop]
  | lv :: lvs, lk :: lks => by
    simp only [deqMapVals, mapLoop, deqSkip]
    rw [deqMapVals_eq_loop env mk mv π rks rvs lvs lks]
    by_cases hc : (mk.ptr && !env.ident && !lk.isNilPtr) = true
    · simp only [hc, if_true]
    · simp only [hc, if_false, Bool.false_eq_true]
      cases lookupKey rks rvs lk with
      | none => rfl
      | some rv =>
        simp only [deqSkip]
        generalize deqN env mv false false π lv rv = x
        cases x <;> rfl

theorem skipLookup_some (skip : Val → Bool) (rks rvs : List Val) (k rv : Val)
    (h : (if skip k = true then none else lookupKey rks rvs k) = some rv) :
    skip k = false ∧ lookupKey rks rvs k = some rv := by
  cases hs : skip k <;> simp [hs] at h
  exact ⟨rfl, h⟩

theorem mapLoop_ne_panic (skip : Val → Bool) (f : Val → Val → DeqR) (rks rvs : List Val) : ∀ (lks lvs : List Val),
    lks.length = lvs.length → (∀ lv ∈ lvs, ∀ rv ∈ rvs, f lv rv ≠ .panic) → mapLoop skip f lks lvs rks rvs ≠ .panic
  | _, [], _, _ => by simp [mapLoop]
  | [], _ :: _, hl, _ => by simp at hl
  | lk :: lks, lv :: lvs, hl, hf => by
    unfold mapLoop
    cases hlk : (if skip lk = true then none else lookupKey rks rvs lk) with
    | none => simp
    | some rv =>
      have hlk' := (skipLookup_some skip rks rvs lk rv hlk).2
      have hrv : rv ∈ rvs := (List.of_mem_zip (lookupKey_mem _ _ _ _ hlk')).2
      have h1 := hf lv (by simp) rv hrv
      have h2 := mapLoop_ne_panic skip f rks rvs lks lvs (by simpa using hl) (fun a ha b hb => hf a (by simp [ha]) b hb)
      simp only []
      generalize f lv rv = x at h1 ⊢
      cases x
      · exact h2
      · simp
      · exact absurd rfl h1

theorem mapLoop_cont_iff (skip : Val → Bool) (f : Val → Val → DeqR) (rks rvs : List Val) : ∀ (lks lvs : List Val),
    lks.length = lvs.length →
    (mapLoop skip f lks lvs rks rvs = .cont ↔
      ∀ k v, (k, v) ∈ List.zip lks lvs → skip k = false ∧ ∃ rv, lookupKey rks rvs k = some rv ∧ f v rv = .cont)
  | _, [], _ => by simp [mapLoop]
  | [], _ :: _, hl => by simp at hl
  | lk :: lks, lv :: lvs, hl => by
    have ih := mapLoop_cont_iff skip f rks rvs lks lvs (by simpa using hl)
    unfold mapLoop
    simp only [List.zip_cons_cons, List.mem_cons, Prod.mk.injEq]
    cases hlk : (if skip lk = true then none else lookupKey rks rvs lk) with
    | none =>
      simp only []
      constructor
      · intro h; cases h
      · intro h
        obtain ⟨hs, rv, h1, _⟩ := h lk lv (Or.inl ⟨rfl, rfl⟩)
        simp [hs, h1] at hlk
    | some rv =>
      obtain ⟨hs, hlk'⟩ := skipLookup_some skip rks rvs lk rv hlk
      simp only []
      cases hx : f lv rv with
      | cont =>
        simp only []
        rw [ih]
        constructor
        · intro h k v hkv
          rcases hkv with ⟨h1, h2⟩ | hkv
          · subst h1; subst h2; exact ⟨hs, rv, hlk', hx⟩
          · exact h k v hkv
        · intro h k v hkv
          exact h k v (Or.inr hkv)
      | retFalse =>
        simp only []
        constructor
        · intro h; cases h
        · intro h
          obtain ⟨_, rv', h1, h2⟩ := h lk lv (Or.inl ⟨rfl, rfl⟩)
          rw [hlk'] at h1; injection h1 with h1; subst h1
          rw [hx] at h2; cases h2
      | panic =>
        simp only []
        constructor
        · intro h; cases h
        · intro h
          obtain ⟨_, rv', h1, h2⟩ := h lk lv (Or.inl ⟨rfl, rfl⟩)
          rw [hlk'] at h1; injection h1 with h1; subst h1
          rw [hx] at h2; cases h2

/-- One direction of the symmetry of the map loop. -/
theorem mapLoop_half (skip : Val → Bool) (f g : Val → Val → DeqR) (lks lvs rks rvs : List Val)
    (hll : lks.length = lvs.length) (hrl : rks.length = rvs.length) (hlr : lks.length = rks.length)
    (hnl : lks.Nodup) (hnr : rks.Nodup)
    (hfg : ∀ lv ∈ lvs, ∀ rv ∈ rvs, f lv rv = g rv lv)
    (h : ∀ k v, (k, v) ∈ List.zip lks lvs → skip k = false ∧ ∃ rv, lookupKey rks rvs k = some rv ∧ f v rv = .cont) :
    ∀ k v, (k, v) ∈ List.zip rks rvs → skip k = false ∧ ∃ lv, lookupKey lks lvs k = some lv ∧ g v lv = .cont := by
  have hsub : lks ⊆ rks := by
    intro k hk
    obtain ⟨v, hv⟩ := lookupKey_of_mem lks lvs k hll hk
    obtain ⟨_, rv, hrv, _⟩ := h k v (lookupKey_mem _ _ _ _ hv)
    exact (List.of_mem_zip (lookupKey_mem _ _ _ _ hrv)).1
  have hsup : rks ⊆ lks := subset_of_nodup_length lks rks hnl hsub (by omega)
  intro k v hkv
  have hk : k ∈ lks := hsup (List.of_mem_zip hkv).1
  obtain ⟨lv, hlv⟩ := lookupKey_of_mem lks lvs k hll hk
  have hmem := lookupKey_mem _ _ _ _ hlv
  obtain ⟨hs, rv, hrv, hc⟩ := h k lv hmem
  have : lookupKey rks rvs k = some v := lookupKey_nodup rks rvs k v hnr hkv
  rw [this] at hrv
  injection hrv with hrv
  subst hrv
  refine ⟨hs, lv, hlv, ?_⟩
  rw [← hfg lv (List.of_mem_zip hmem).2 v (List.of_mem_zip hkv).2]
  exact hc

theorem mapLoop_sym (skip : Val → Bool) (f : Val → Val → DeqR) (lks lvs rks rvs : List Val)
    (hll : lks.length = lvs.length) (hrl : rks.length = rvs.length) (hlr : lks.length = rks.length)
    (hnl : lks.Nodup) (hnr : rks.Nodup)
    (hsym : ∀ lv ∈ lvs, ∀ rv ∈ rvs, f lv rv = f rv lv)
    (hnp : ∀ lv ∈ lvs, ∀ rv ∈ rvs, f lv rv ≠ .panic) :
    mapLoop skip f lks lvs rks rvs = mapLoop skip f rks rvs lks lvs := by
  have h1 := mapLoop_ne_panic skip f rks rvs lks lvs hll hnp
  have h2 := mapLoop_ne_panic skip f lks lvs rks rvs hrl (fun rv hrv lv hlv => by rw [← hsym lv hlv rv hrv]; exact hnp lv hlv rv hrv)
  have h3 := mapLoop_cont_iff skip f rks rvs lks lvs hll
  have h4 := mapLoop_cont_iff skip f lks lvs rks rvs hrl
  have hiff : mapLoop skip f lks lvs rks rvs = .cont ↔ mapLoop skip f rks rvs lks lvs = .cont := by
    rw [h3, h4]
    constructor
    · exact mapLoop_half skip f f lks lvs rks rvs hll hrl hlr hnl hnr hsym
    · exact mapLoop_half skip f f rks rvs lks lvs hrl hll hlr.symm hnr hnl (fun rv hrv lv hlv => (hsym lv hlv rv hrv).symm)
  generalize mapLoop skip f lks lvs rks rvs = x at h1 hiff ⊢
  generalize mapLoop skip f rks rvs lks lvs = y at h2 hiff ⊢
  cases x <;> cases y <;> simp_all

/-! ### Leaves -/

theorem scalarNe_comm (l r : Val) : scalarNe l r = scalarNe r l := by
  cases l <;> cases r <;> simp [scalarNe, bne_comm]

theorem equalFloat_comm (a b : Int) (opts : Option DeqOpts) : equalFloat a b opts = equalFloat b a opts := by
  unfold equalFloat
  have : (a - b).natAbs = (b - a).natAbs := by omega
  rw [this]

theorem deqBasic_comm (opts : Option DeqOpts) (n : Node) (ps : Bool) (π : String) (l r : Val) :
    deqBasic opts n ps π l r = deqBasic opts n ps π r l := by
  unfold deqBasic
  rw [scalarNe_comm l r]
  cases l <;> cases r <;> simp [equalFloat_comm]

theorem deqBasic_ne_panic (opts : Option DeqOpts) (n : Node) (ps : Bool) (π : String) (l r : Val) :
    deqBasic opts n ps π l r ≠ .panic := by
  have key : ∀ (c : Bool), (if c = true then DeqR.retFalse else DeqR.cont) ≠ .panic := by
    intro c; cases c <;> simp
  unfold deqBasic
  split
  · exact key _
  · exact key _

theorem scalarNe_self (v : Val) (h : isScal v = true) : scalarNe v v = false := by
  cases v <;> simp [isScal] at h <;> simp [scalarNe]

theorem equalFloat_self (a : Int) (opts : Option DeqOpts) : equalFloat a a opts = true := by
  unfold equalFloat
  simp

theorem deqBasic_self (opts : Option DeqOpts) (i : Info) (ps : Bool) (π : String) (v : Val) (k : Kind)
    (hk : kindOfName i.typu = some k) (hv : wtScalar k v = true) :
    deqBasic opts (.basic i) ps π v v = .cont := by
  have hf := isFloat_of_kind _ _ hk
  unfold deqBasic isFloatNode
  simp only [Node.typu, Node.info, hf]
  cases k <;> cases v <;> simp [wtScalar] at hv <;> simp [Kind.isFloat, scalarNe, equalFloat_self]

/-! ### Unfolding of the list loops for the repaired configuration -/

theorem deqFields_cons_fixed (opts : Option DeqOpts) (ident : Bool) (ch : Node) (chs : List Node) (π : String)
    (l r : Val) (ls rs : List Val) :
    deqFields (fixedEnv opts ident) (ch :: chs) π (l :: ls) (r :: rs) =
      (deqN (fixedEnv opts ident) ch true false π l r).andThen
        (fun _ => deqFields (fixedEnv opts ident) chs π ls rs) := by
  have hcfg : GenCfg.fixed.deqPtrLeafNilUnchecked = false := rfl
  simp only [deqFields, hcfg, Bool.and_false, Bool.false_eq_true, if_false]
  generalize deqN (fixedEnv opts ident) ch true false π l r = x
  cases x <;> rfl

theorem deqElems_cons (env : DeqEnv) (e : Node) (π : String) (l r : Val) (ls rs : List Val) :
    deqElems env e π (l :: ls) (r :: rs) =
      (deqN env e false false π l r).andThen (fun _ => deqElems env e π ls rs) := by
  simp only [deqElems]
  generalize deqN env e false false π l r = x
  cases x <;> rfl

theorem andThen_ne_panic (x : DeqR) (f : Unit → DeqR) (h1 : x ≠ .panic) (h2 : f () ≠ .panic) :
    x.andThen f ≠ .panic := by
  cases x
  · exact h2
  · simp [DeqR.andThen]
  · exact absurd rfl h1

theorem WTall_mem (n : Node) : ∀ (vs : List Val) (v : Val), WTall n vs = true → v ∈ vs → WT n v = true
  | [], v, _, hm => by cases hm
  | x :: xs, v, h, hm => by
    simp only [WTall, Bool.and_eq_true] at h
    cases hm with
    | head => exact h.1
    | tail _ hm => exact WTall_mem n xs v h.2 hm

theorem MapKeysOKs_mem : ∀ (vs : List Val) (v : Val), MapKeysOKs vs = true → v ∈ vs → MapKeysOK v = true
  | [], v, _, hm => by cases hm
  | x :: xs, v, h, hm => by
    simp only [MapKeysOKs, Bool.and_eq_true] at h
    cases hm with
    | head => exact h.1
    | tail _ hm => exact MapKeysOKs_mem xs v h.2 hm

/-! ### Symmetry -/

section Sym
variable (opts : Option DeqOpts) (ident : Bool)

/-- Node-level statement at a left value: same answer in both orders, and never a panic. -/
def SymN (v : Val) : Prop := ∀ (r : Val) (n : Node) (ps d0 : Bool) (pp : String),
  WT n v = true → WT n r = true → MapKeysOK v = true → MapKeysOK r = true →
  deqN (fixedEnv opts ident) n ps d0 pp v r = deqN (fixedEnv opts ident) n ps d0 pp r v ∧
  deqN (fixedEnv opts ident) n ps d0 pp v r ≠ .panic

def SymV (v : Val) : Prop := ∀ (r : Val) (n : Node) (ps wrap : Bool) (π : String),
  WT (n.withPtr false) v = true → WT (n.withPtr false) r = true → MapKeysOK v = true → MapKeysOK r = true →
  deqV (fixedEnv opts ident) n ps wrap π v r = deqV (fixedEnv opts ident) n ps wrap π r v ∧
  deqV (fixedEnv opts ident) n ps wrap π v r ≠ .panic

theorem symN_of_symV (v : Val) (h1 : v ≠ .nilptr) (h2 : ∀ w, v ≠ .ptr w) (h : SymV opts ident v) :
    SymN opts ident v := by
  intro r n ps d0 pp hl hr hkl hkr
  have hp := WT_not_ptr n v hl h1 h2
  rw [deqN_eq_deqV _ _ _ _ _ _ _ hp, deqN_eq_deqV _ _ _ _ _ _ _ hp]
  rw [← withPtr_false_of_not_ptr n hp] at hl hr
  exact h r n ps _ _ hl hr hkl hkr

theorem symN_nil : SymN opts ident .nilptr := by
  intro r n ps d0 pp hl hr hkl hkr
  have hp : n.ptr = true := by rw [WT_nilptr] at hl; exact hl
  rcases WT_ptr_cases n r hr with ⟨_, hv | ⟨rw, hv, hrw⟩⟩ | ⟨hp', _, _⟩
  · subst hv
    refine ⟨rfl, ?_⟩
    simp only [deqN, hp, Val.isNilPtr]
    split <;> simp
  · subst hv
    simp only [deqN, hp, Val.isNilPtr]
    split <;> simp
  · rw [hp] at hp'; cases hp'

theorem symN_ptr (lw : Val) (h : SymV opts ident lw) : SymN opts ident (.ptr lw) := by
  intro r n ps d0 pp hl hr hkl hkr
  rw [WT_ptr] at hl
  simp only [Bool.and_eq_true] at hl
  have hp : n.ptr = true := hl.1
  rcases WT_ptr_cases n r hr with ⟨_, hv | ⟨rw, hv, hrw⟩⟩ | ⟨hp', _, _⟩
  · subst hv
    simp only [deqN, hp, Val.isNilPtr]
    split <;> simp
  · subst hv
    obtain ⟨h1, h2⟩ := h rw n ps (ps && decide ((deqPath pp n d0).length > 0)) (deqPath pp n d0) hl.2 hrw
      (by simpa [MapKeysOK] using hkl) (by simpa [MapKeysOK] using hkr)
    simp only [deqN, hp]
    split
    · simp
    · simp only [Bool.not_true, Bool.false_eq_true, if_false]
      exact ⟨h1, h2⟩
  · rw [hp] at hp'; cases hp'

theorem symV_scalar (v : Val) (hs : isScal v = true) : SymV opts ident v := by
  intro r n ps wrap π hl hr _ _
  cases n with
  | basic i =>
    have hrs := WT_basic_isScal i r hr
    cases v <;> simp [isScal] at hs <;> cases r <;> simp [isScal] at hrs <;>
      simp only [deqV] <;> exact ⟨deqBasic_comm _ _ _ _ _ _, deqBasic_ne_panic _ _ _ _ _ _⟩
  | _ => cases v <;> simp [isScal] at hs <;> simp [WT, Node.withPtr] at hl

theorem symV_bytes (nl : Bool) (ld : Bytes) (c : Nat) : SymV opts ident (.bytes nl ld c) := by
  intro r n ps wrap π hl hr _ _
  cases n with
  | slice i e =>
    have hb : i.typn = "[]byte" := by
      have := hl
      simp [WT, Node.withPtr] at this
      exact this.1
    cases r with
    | bytes rn rd rc =>
      by_cases hd : ld = rd
      · subst hd; cases hm : deqMustCheck π opts <;> simp [deqV, bytesData, hm]
      · have hd' : ¬ rd = ld := fun h => hd h.symm
        cases hm : deqMustCheck π opts <;> simp [deqV, bytesData, hm, hd, hd']
    | _ => simp [WT, Node.withPtr, hb, Node.ptr, Node.info] at hr
  | basic i => have := WT_basic_isScal _ _ hl; simp [isScal] at this
  | _ => simp [WT, Node.withPtr] at hl

theorem sym_fields : ∀ (ls rs : List Val) (chld : List Node) (π : String),
    (∀ v ∈ ls, SymN opts ident v) → WTs chld ls = true → WTs chld rs = true →
    MapKeysOKs ls = true → MapKeysOKs rs = true →
    deqFields (fixedEnv opts ident) chld π ls rs = deqFields (fixedEnv opts ident) chld π rs ls ∧
    deqFields (fixedEnv opts ident) chld π ls rs ≠ .panic
  | [], rs, chld, π, _, hl, hr, _, _ => by
    cases chld with
    | nil => cases rs <;> simp [WTs] at hr; simp [deqFields]
    | cons c cs => simp [WTs] at hl
  | l :: ls, rs, chld, π, ih, hl, hr, hkl, hkr => by
    cases chld with
    | nil => simp [WTs] at hl
    | cons ch chs =>
      cases rs with
      | nil => simp [WTs] at hr
      | cons r rs' =>
        simp only [WTs, Bool.and_eq_true] at hl hr
        simp only [MapKeysOKs, Bool.and_eq_true] at hkl hkr
        obtain ⟨h1, h2⟩ := ih l (by simp) r ch true false π hl.1 hr.1 hkl.1 hkr.1
        obtain ⟨h3, h4⟩ := sym_fields ls rs' chs π (fun v hv => ih v (by simp [hv])) hl.2 hr.2 hkl.2 hkr.2
        rw [deqFields_cons_fixed, deqFields_cons_fixed, ← h1, ← h3]
        exact ⟨rfl, andThen_ne_panic _ _ h2 h4⟩

theorem sym_elems : ∀ (ls rs : List Val) (e : Node) (π : String),
    (∀ v ∈ ls, SymN opts ident v) → ls.length = rs.length → WTall e ls = true → WTall e rs = true →
    MapKeysOKs ls = true → MapKeysOKs rs = true →
    deqElems (fixedEnv opts ident) e π ls rs = deqElems (fixedEnv opts ident) e π rs ls ∧
    deqElems (fixedEnv opts ident) e π ls rs ≠ .panic
  | [], rs, e, π, _, hlen, hl, hr, _, _ => by
    cases rs with
    | nil => simp [deqElems]
    | cons _ _ => simp at hlen
  | l :: ls, rs, e, π, ih, hlen, hl, hr, hkl, hkr => by
    cases rs with
    | nil => simp at hlen
    | cons r rs' =>
      simp only [WTall, Bool.and_eq_true] at hl hr
      simp only [MapKeysOKs, Bool.and_eq_true] at hkl hkr
      obtain ⟨h1, h2⟩ := ih l (by simp) r e false false π hl.1 hr.1 hkl.1 hkr.1
      obtain ⟨h3, h4⟩ := sym_elems ls rs' e π (fun v hv => ih v (by simp [hv])) (by simpa using hlen) hl.2 hr.2 hkl.2 hkr.2
      rw [deqElems_cons, deqElems_cons, ← h1, ← h3]
      exact ⟨rfl, andThen_ne_panic _ _ h2 h4⟩

theorem symV_struct (lfs : List Val) (ih : ∀ v ∈ lfs, SymN opts ident v) : SymV opts ident (.struct lfs) := by
  intro r n ps wrap π hl hr hkl hkr
  cases n with
  | struct i chld =>
    obtain ⟨rfs, hrr, hrs⟩ := WT_struct_inv _ _ _ rfl hr
    subst hrr
    have hls : WTs chld lfs = true := by simpa [WT, Node.withPtr] using hl
    obtain ⟨h1, h2⟩ := sym_fields opts ident lfs rfs chld π ih hls hrs (by simpa [MapKeysOK] using hkl)
      (by simpa [MapKeysOK] using hkr)
    simp only [deqV]
    split
    · simp
    · exact ⟨h1, h2⟩
  | basic i => have := WT_basic_isScal _ _ hl; simp [isScal] at this
  | _ => simp [WT, Node.withPtr] at hl

theorem symV_slice (nl : Bool) (les : List Val) (c : Nat) (ih : ∀ v ∈ les, SymN opts ident v) :
    SymV opts ident (.slice nl les c) := by
  intro r n ps wrap π hl hr hkl hkr
  cases n with
  | slice i e =>
    have hb : (i.typn == "[]byte") = false := by
      simp [WT, Node.withPtr] at hl
      simpa using hl.1.1
    obtain ⟨rnl, res, rc, hrr, hre⟩ := WT_slice_inv { i with ptr := false } e r rfl hb hr
    subst hrr
    obtain ⟨_, _, _, hll, hle⟩ := WT_slice_inv { i with ptr := false } e _ rfl hb hl
    injection hll with h1 h2 h3
    subst h1 h2 h3
    simp only [deqV]
    split
    · simp
    · by_cases hne : (les.length != res.length) = true
      · have hne' : (res.length != les.length) = true := by
          simp only [bne_iff_ne, ne_eq] at hne ⊢
          exact fun h => hne h.symm
        simp [hne, hne']
      · have hlen : les.length = res.length := by simpa using hne
        have hne' : (res.length != les.length) = false := by simp [hlen]
        simp only [hne, hne', if_false, Bool.false_eq_true]
        exact sym_elems opts ident les res e π ih hlen hle hre (by simpa [MapKeysOK] using hkl)
          (by simpa [MapKeysOK] using hkr)
  | basic i => have := WT_basic_isScal _ _ hl; simp [isScal] at this
  | _ => simp [WT, Node.withPtr] at hl

theorem symV_map (nl : Bool) (lks lvs : List Val) (ih : ∀ v ∈ lvs, SymN opts ident v) :
    SymV opts ident (.map nl lks lvs) := by
  intro r n ps wrap π hl hr hkl hkr
  cases n with
  | map i mk mv =>
    obtain ⟨rnl, rks, rvs, hrr, hrlen, _, hrv⟩ := WT_map_inv _ _ _ _ rfl hr
    subst hrr
    obtain ⟨_, _, _, hll, hllen, _, hlv⟩ := WT_map_inv _ _ _ _ rfl hl
    injection hll with h1 h2 h3
    subst h1 h2 h3
    simp only [MapKeysOK, Bool.and_eq_true] at hkl hkr
    simp only [deqV]
    split
    · simp
    · by_cases hne : (lks.length != rks.length) = true
      · have hne' : (rks.length != lks.length) = true := by
          simp only [bne_iff_ne, ne_eq] at hne ⊢
          exact fun h => hne h.symm
        simp [hne, hne']
      · have hlen : lks.length = rks.length := by simpa using hne
        have hne' : (rks.length != lks.length) = false := by simp [hlen]
        simp only [hne, hne', if_false, Bool.false_eq_true]
        rw [deqMapVals_eq_loop, deqMapVals_eq_loop]
        have hpt : ∀ lv ∈ lvs, ∀ rv ∈ rvs,
            deqN (fixedEnv opts ident) mv false false π lv rv = deqN (fixedEnv opts ident) mv false false π rv lv ∧
            deqN (fixedEnv opts ident) mv false false π lv rv ≠ .panic := fun lv hlv' rv hrv' =>
          ih lv hlv' rv mv false false π (WTall_mem mv lvs lv hlv hlv') (WTall_mem mv rvs rv hrv hrv')
            (MapKeysOKs_mem lvs lv hkl.2 hlv') (MapKeysOKs_mem rvs rv hkr.2 hrv')
        refine ⟨mapLoop_sym _ _ lks lvs rks rvs hllen hrlen hlen (keysDistinct_nodup _ hkl.1)
          (keysDistinct_nodup _ hkr.1) (fun lv h1 rv h2 => (hpt lv h1 rv h2).1) (fun lv h1 rv h2 => (hpt lv h1 rv h2).2), ?_⟩
        exact mapLoop_ne_panic _ _ rks rvs lks lvs hllen (fun lv h1 rv h2 => (hpt lv h1 rv h2).2)
  | basic i => have := WT_basic_isScal _ _ hl; simp [isScal] at this
  | _ => simp [WT, Node.withPtr] at hl

mutual
theorem symN_all : ∀ (v : Val), SymN opts ident v
  | .nilptr => symN_nil opts ident
  | .ptr lw => symN_ptr opts ident lw (symV_all lw)
  | .struct lfs => symN_of_symV opts ident _ (by simp) (by simp) (symV_struct opts ident lfs (symL_all lfs))
  | .map nl lks lvs => symN_of_symV opts ident _ (by simp) (by simp) (symV_map opts ident nl lks lvs (symL_all lvs))
  | .slice nl les c => symN_of_symV opts ident _ (by simp) (by simp) (symV_slice opts ident nl les c (symL_all les))
  | .bytes nl ld c => symN_of_symV opts ident _ (by simp) (by simp) (symV_bytes opts ident nl ld c)
  | .bool x => symN_of_symV opts ident _ (by simp) (by simp) (symV_scalar opts ident _ rfl)
  | .int x => symN_of_symV opts ident _ (by simp) (by simp) (symV_scalar opts ident _ rfl)
  | .uint x => symN_of_symV opts ident _ (by simp) (by simp) (symV_scalar opts ident _ rfl)
  | .float x => symN_of_symV opts ident _ (by simp) (by simp) (symV_scalar opts ident _ rfl)
  | .str x => symN_of_symV opts ident _ (by simp) (by simp) (symV_scalar opts ident _ rfl)
theorem symV_all : ∀ (v : Val), SymV opts ident v
  | .nilptr => by
    intro r n ps wrap π hl
    rw [WT_nilptr, withPtr_ptr] at hl; cases hl
  | .ptr lw => by
    intro r n ps wrap π hl
    rw [WT_ptr, withPtr_ptr] at hl; cases hl
  | .struct lfs => symV_struct opts ident lfs (symL_all lfs)
  | .map nl lks lvs => symV_map opts ident nl lks lvs (symL_all lvs)
  | .slice nl les c => symV_slice opts ident nl les c (symL_all les)
  | .bytes nl ld c => symV_bytes opts ident nl ld c
  | .bool x => symV_scalar opts ident _ rfl
  | .int x => symV_scalar opts ident _ rfl
  | .uint x => symV_scalar opts ident _ rfl
  | .float x => symV_scalar opts ident _ rfl
  | .str x => symV_scalar opts ident _ rfl
theorem symL_all : ∀ (vs : List Val), ∀ v ∈ vs, SymN opts ident v
  | [], v, hm => by cases hm
  | x :: xs, v, hm => by
    cases hm with
    | head => exact symN_all x
    | tail _ hm => exact symL_all xs v hm
end

end Sym

/-! ### Reflexivity (the right argument is the same object: `ident := true`) -/

section Refl
variable (opts : Option DeqOpts)

def ReflN (v : Val) : Prop := ∀ (n : Node) (ps d0 : Bool) (pp : String),
  WT n v = true → MapKeysOK v = true → deqN (fixedEnv opts true) n ps d0 pp v v = .cont

def ReflV (v : Val) : Prop := ∀ (n : Node) (ps wrap : Bool) (π : String),
  WT (n.withPtr false) v = true → MapKeysOK v = true → deqV (fixedEnv opts true) n ps wrap π v v = .cont

theorem reflN_of_reflV (v : Val) (h1 : v ≠ .nilptr) (h2 : ∀ w, v ≠ .ptr w) (h : ReflV opts v) : ReflN opts v := by
  intro n ps d0 pp hl hk
  have hp := WT_not_ptr n v hl h1 h2
  rw [deqN_eq_deqV _ _ _ _ _ _ _ hp]
  rw [← withPtr_false_of_not_ptr n hp] at hl
  exact h n ps _ _ hl hk

theorem reflN_nil : ReflN opts .nilptr := by
  intro n ps d0 pp hl hk
  have hp : n.ptr = true := by rw [WT_nilptr] at hl; exact hl
  simp only [deqN, hp, Val.isNilPtr]
  split <;> simp

theorem reflN_ptr (lw : Val) (h : ReflV opts lw) : ReflN opts (.ptr lw) := by
  intro n ps d0 pp hl hk
  rw [WT_ptr] at hl
  simp only [Bool.and_eq_true] at hl
  have hp : n.ptr = true := hl.1
  have := h n ps (ps && decide ((deqPath pp n d0).length > 0)) (deqPath pp n d0) hl.2 (by simpa [MapKeysOK] using hk)
  simp only [deqN, hp]
  split
  · rfl
  · simpa using this

theorem reflV_scalar (v : Val) (hs : isScal v = true) : ReflV opts v := by
  intro n ps wrap π hl _
  cases n with
  | basic i =>
    cases hk : kindOfName i.typu with
    | none => cases v <;> simp [isScal] at hs <;> simp [WT, Node.withPtr, hk] at hl
    | some k =>
      have hl' : wtScalar k v = true := by
        cases v <;> simp [isScal] at hs <;> simpa [WT, Node.withPtr, hk] using hl
      have := deqBasic_self opts i ps π v k hk hl'
      cases v <;> simp [isScal] at hs <;> simpa [deqV] using this
  | _ => cases v <;> simp [isScal] at hs <;> simp [WT, Node.withPtr] at hl

theorem reflV_bytes (nl : Bool) (ld : Bytes) (c : Nat) : ReflV opts (.bytes nl ld c) := by
  intro n ps wrap π hl _
  simp [deqV, bytesData]

theorem refl_fields : ∀ (ls : List Val) (chld : List Node) (π : String),
    (∀ v ∈ ls, ReflN opts v) → WTs chld ls = true → MapKeysOKs ls = true →
    deqFields (fixedEnv opts true) chld π ls ls = .cont
  | [], chld, π, _, _, _ => by simp [deqFields]
  | l :: ls, chld, π, ih, hl, hk => by
    cases chld with
    | nil => simp [WTs] at hl
    | cons ch chs =>
      simp only [WTs, Bool.and_eq_true] at hl
      simp only [MapKeysOKs, Bool.and_eq_true] at hk
      rw [deqFields_cons_fixed, ih l (by simp) ch true false π hl.1 hk.1]
      exact refl_fields ls chs π (fun v hv => ih v (by simp [hv])) hl.2 hk.2

theorem refl_elems : ∀ (ls : List Val) (e : Node) (π : String),
    (∀ v ∈ ls, ReflN opts v) → WTall e ls = true → MapKeysOKs ls = true →
    deqElems (fixedEnv opts true) e π ls ls = .cont
  | [], e, π, _, _, _ => by simp [deqElems]
  | l :: ls, e, π, ih, hl, hk => by
    simp only [WTall, Bool.and_eq_true] at hl
    simp only [MapKeysOKs, Bool.and_eq_true] at hk
    rw [deqElems_cons, ih l (by simp) e false false π hl.1 hk.1]
    exact refl_elems ls e π (fun v hv => ih v (by simp [hv])) hl.2 hk.2

theorem reflV_struct (lfs : List Val) (ih : ∀ v ∈ lfs, ReflN opts v) : ReflV opts (.struct lfs) := by
  intro n ps wrap π hl hk
  cases n with
  | struct i chld =>
    have hls : WTs chld lfs = true := by simpa [WT, Node.withPtr] using hl
    have := refl_fields opts lfs chld π ih hls (by simpa [MapKeysOK] using hk)
    simp only [deqV]
    split
    · rfl
    · exact this
  | basic i => have := WT_basic_isScal _ _ hl; simp [isScal] at this
  | _ => simp [WT, Node.withPtr] at hl

theorem reflV_slice (nl : Bool) (les : List Val) (c : Nat) (ih : ∀ v ∈ les, ReflN opts v) :
    ReflV opts (.slice nl les c) := by
  intro n ps wrap π hl hk
  cases n with
  | slice i e =>
    have hb : (i.typn == "[]byte") = false := by
      simp [WT, Node.withPtr] at hl
      simpa using hl.1.1
    obtain ⟨_, _, _, hll, hle⟩ := WT_slice_inv { i with ptr := false } e _ rfl hb hl
    injection hll with h1 h2 h3
    subst h1 h2 h3
    have := refl_elems opts les e π ih hle (by simpa [MapKeysOK] using hk)
    simp only [deqV]
    split
    · rfl
    · simpa using this
  | basic i => have := WT_basic_isScal _ _ hl; simp [isScal] at this
  | _ => simp [WT, Node.withPtr] at hl

theorem reflV_map (nl : Bool) (lks lvs : List Val) (ih : ∀ v ∈ lvs, ReflN opts v) :
    ReflV opts (.map nl lks lvs) := by
  intro n ps wrap π hl hk
  cases n with
  | map i mk mv =>
    obtain ⟨_, _, _, hll, hllen, _, hlv⟩ := WT_map_inv _ _ _ _ rfl hl
    injection hll with h1 h2 h3
    subst h1 h2 h3
    simp only [MapKeysOK, Bool.and_eq_true] at hk
    have : deqMapVals (fixedEnv opts true) mk mv π lks lvs lks lvs = .cont := by
      rw [deqMapVals_eq_loop, mapLoop_cont_iff _ _ _ _ _ _ hllen]
      intro k v hkv
      refine ⟨by simp [deqSkip], v, lookupKey_nodup lks lvs k v (keysDistinct_nodup _ hk.1) hkv, ?_⟩
      have hv : v ∈ lvs := (List.of_mem_zip hkv).2
      exact ih v hv mv false false π (WTall_mem mv lvs v hlv hv) (MapKeysOKs_mem lvs v hk.2 hv)
    simp only [deqV]
    split
    · rfl
    · simpa using this
  | basic i => have := WT_basic_isScal _ _ hl; simp [isScal] at this
  | _ => simp [WT, Node.withPtr] at hl

mutual
theorem reflN_all : ∀ (v : Val), ReflN opts v
  | .nilptr => reflN_nil opts
  | .ptr lw => reflN_ptr opts lw (reflV_all lw)
  | .struct lfs => reflN_of_reflV opts _ (by simp) (by simp) (reflV_struct opts lfs (reflL_all lfs))
  | .map nl lks lvs => reflN_of_reflV opts _ (by simp) (by simp) (reflV_map opts nl lks lvs (reflL_all lvs))
  | .slice nl les c => reflN_of_reflV opts _ (by simp) (by simp) (reflV_slice opts nl les c (reflL_all les))
  | .bytes nl ld c => reflN_of_reflV opts _ (by simp) (by simp) (reflV_bytes opts nl ld c)
  | .bool x => reflN_of_reflV opts _ (by simp) (by simp) (reflV_scalar opts _ rfl)
  | .int x => reflN_of_reflV opts _ (by simp) (by simp) (reflV_scalar opts _ rfl)
  | .uint x => reflN_of_reflV opts _ (by simp) (by simp) (reflV_scalar opts _ rfl)
  | .float x => reflN_of_reflV opts _ (by simp) (by simp) (reflV_scalar opts _ rfl)
  | .str x => reflN_of_reflV opts _ (by simp) (by simp) (reflV_scalar opts _ rfl)
theorem reflV_all : ∀ (v : Val), ReflV opts v
  | .nilptr => by
    intro n ps wrap π hl
    rw [WT_nilptr, withPtr_ptr] at hl; cases hl
  | .ptr lw => by
    intro n ps wrap π hl
    rw [WT_ptr, withPtr_ptr] at hl; cases hl
  | .struct lfs => reflV_struct opts lfs (reflL_all lfs)
  | .map nl lks lvs => reflV_map opts nl lks lvs (reflL_all lvs)
  | .slice nl les c => reflV_slice opts nl les c (reflL_all les)
  | .bytes nl ld c => reflV_bytes opts nl ld c
  | .bool x => reflV_scalar opts _ rfl
  | .int x => reflV_scalar opts _ rfl
  | .uint x => reflV_scalar opts _ rfl
  | .float x => reflV_scalar opts _ rfl
  | .str x => reflV_scalar opts _ rfl
theorem reflL_all : ∀ (vs : List Val), ∀ v ∈ vs, ReflN opts v
  | [], v, hm => by cases hm
  | x :: xs, v, hm => by
    cases hm with
    | head => exact reflN_all x
    | tail _ hm => exact reflL_all xs v hm
end

end Refl

/-! ### The answers of `deqM` -/

theorem deqM_symmetric (n : Node) (a b : Val) (opts : Option DeqOpts) (ident : Bool)
    (hwa : WT n a = true) (hwb : WT n b = true) (hka : MapKeysOK a = true) (hkb : MapKeysOK b = true) :
    deqM { cfg := GenCfg.fixed, opts := opts, ident := ident } n .ptr .ptr a b =
      deqM { cfg := GenCfg.fixed, opts := opts, ident := ident } n .ptr .ptr b a := by
  have h := (symN_all opts ident a b n false true "" hwa hwb hka hkb).1
  unfold deqM
  simp only [deqArgOf]
  rw [h]

theorem deqM_reflexive (n : Node) (a : Val) (opts : Option DeqOpts)
    (hwa : WT n a = true) (hka : MapKeysOK a = true) :
    deqM { cfg := GenCfg.fixed, opts := opts, ident := true } n .ptr .ptr a a = .t := by
  have h := reflN_all opts a n false true "" hwa hka
  unfold deqM
  simp only [deqArgOf]
  rw [h]

/-- Well-typed arguments never make the repaired DeepEqual panic. -/
theorem deqM_no_panic (n : Node) (a b : Val) (opts : Option DeqOpts) (ident : Bool)
    (hwa : WT n a = true) (hwb : WT n b = true) (hka : MapKeysOK a = true) (hkb : MapKeysOK b = true) :
    deqM { cfg := GenCfg.fixed, opts := opts, ident := ident } n .ptr .ptr a b ≠ .panic := by
  have h := (symN_all opts ident a b n false true "" hwa hwb hka hkb).2
  unfold deqM
  simp only [deqArgOf]
  generalize deqN _ n false true "" a b = x at h ⊢
  cases x <;> simp_all

end Inspector
