/-
Gen/Cmp.lean — behavioural model of compare mode of `writeNode` and of `writeCmp` (compiler.go:1184-1247).
-/
import InspectorModel.Gen.Get
namespace Inspector

/-- inspector.Op as an integer (const.go): 0 unk, 1 ==, 2 !=, 3 >, 4 >=, 5 <, 6 <=, 7 inc, 8 dec. -/
abbrev Op := Int

/-- What Compare did to `*result`. -/
inductive CmpOut
  | untouched
  | set (b : Bool)
  | err
  | panic
deriving Repr, DecidableEq, Inhabited

/-- Native order on scalar values of one kind (`none`: not comparable / different constructors). -/
def valLt : Val → Val → Option Bool
  | .int a, .int b => some (decide (a < b))
  | .uint a, .uint b => some (decide (a < b))
  | .float a, .float b => some (decide (a < b))
  | .str a, .str b => some (bytesLt a b)
  | _, _ => none

def valEq : Val → Val → Option Bool
  | .int a, .int b => some (a == b)
  | .uint a, .uint b => some (a == b)
  | .float a, .float b => some (a == b)
  | .str a, .str b => some (a == b)
  | .bool a, .bool b => some (a == b)
  | .bytes _ a _, .bytes _ b _ => some (a == b)
  | _, _ => none

/-- The six-way `switch cond` of writeCmp; other operators leave the result untouched. -/
def cmpSix (op : Op) (l r : Val) : CmpOut :=
  match valEq l r, valLt l r, valLt r l with
  | some eq, some lt, some gt =>
    if op == 1 then .set eq
    else if op == 2 then .set (!eq)
    else if op == 3 then .set gt
    else if op == 4 then .set (gt || eq)
    else if op == 5 then .set lt
    else if op == 6 then .set (lt || eq)
    else .untouched
  | _, _, _ => .panic

/-- `[]byte` and `bool`: `if cond == OpEq {…} else {…}` — every other operator means "not equal". -/
def cmpTwo (op : Op) (l r : Val) : CmpOut :=
  match valEq l r with
  | some eq => if op == 1 then .set eq else .set (!eq)
  | none => .panic

def nilText : Bytes := strBytes "nil"

/-- writeCmp for a node whose value is `v` (pointer level as the node says). -/
def writeCmpM (n : Node) (v : Val) (op : Op) (right : Seg) : CmpOut :=
  if n.ptr then
    if right.text == nilText then
      if op == 1 then .set v.isNilPtr else .set (!v.isNilPtr)
    else .untouched
  else
    match convSeg n.typn n.typu right with
    | none => .panic
    | some .err => .err
    | some .opaque => .untouched   -- never compared against: inputs with inexact operands are skipped by the driver
    | some (.ok r) =>
      if n.typn == "[]byte" || n.typn == "bool" then cmpTwo op v r
      else cmpSix op v r

/-- Flow of compare mode: `none` = fell out without return. -/
def cmpN (cfg : GenCfg) (n : Node) (v : Val) (p : List Seg) (op : Op) (right : Seg) : Option CmpOut :=
  match p with
  | [] =>
    if n.ptr && right.text == nilText && !cfg.elemNilCmpMissing then some (writeCmpM n v op right) else
    match n with
    | .basic i => if i.ptr && v.isNilPtr then some .untouched else some (writeCmpM n v op right)
    | _ => none
  | s :: rest =>
    match n with
    | .basic i => if i.ptr && v.isNilPtr then some .untouched else some (writeCmpM n v op right)
    | .struct i chld =>
      if i.ptr && v.isNilPtr then some .untouched else
      match derefIf i.ptr v with
      | .struct fs =>
        match findField chld fs s.text with
        | none => none
        | some (ch, fv) =>
          if ch.isLeaf then some (writeCmpM ch fv op right)
          else
            let intercept := ch.ptr && right.text == nilText && (cfg.nilInterceptAnyDepth || rest.isEmpty)
            if intercept then some (writeCmpM ch fv op right)
            else cmpN cfg ch fv rest op right
      | _ => some .panic
    | .map i k mv =>
      if i.ptr && v.isNilPtr then some .untouched else
      match derefIf i.ptr v with
      | .map _ ks vs =>
        if k.typn == "string" then
          if k.ptr then none     -- `m[&path[d]]`: a fresh pointer never is a key
          else
            match lookupKey ks vs (.str s.text) with
            | some x => cmpN cfg mv x rest op right
            | none => none
        else
          match convSeg k.typn k.typu s with
          | none => some .panic
          | some .err => some .err
          | some .opaque => cmpN cfg mv (zeroVal mv) rest op right
          | some (.ok key) =>
            if k.ptr then cmpN cfg mv (zeroVal mv) rest op right
            else
              match lookupKey ks vs key with
              | some x => cmpN cfg mv x rest op right
              | none => cmpN cfg mv (zeroVal mv) rest op right
      | _ => some .panic
    | .slice i e =>
      if i.typn == "[]byte" then
        if i.ptr && v.isNilPtr then some .untouched else some (writeCmpM n v op right)
      else
      if i.ptr && v.isNilPtr then some .untouched else
      match derefIf i.ptr v with
      | .slice _ es _ =>
        match s.pi with
        | none => some .err
        | some idx =>
          if (es.length : Int) > idx then
            if idx < 0 then (if cfg.negIndexPanics then some .panic else none)
            else
              match nth? es idx.toNat with
              | some x => cmpN cfg e x rest op right
              | none => some .panic
          else none
      | _ => some .panic

def cmpM (cfg : GenCfg) (n : Node) (f : Form) (v : Val) (p : List Seg) (op : Op) (right : Seg) : CmpOut :=
  match p with
  | [] => .untouched
  | s :: _ =>
    match rootOfC cfg f with
    | .early => .untouched
    | .panic => .panic
    | .nilX =>
      match n with
      | .map _ _ _ => .untouched
      | .struct _ chld => if chld.any (fun c => strBytes c.name == s.text) then .panic else .untouched
      | .slice _ _ => (match s.pi with | none => .err | some _ => .panic)
      | .basic _ => .panic
    | .ok => (cmpN cfg n v p op right).getD .untouched

end Inspector
