/-
Lib/StrAnyMap.lean — model of StringAnyMapInspector (stranymap.go) over JSON-like trees of
`map[string]any`. A node is held in an `any`: a leaf (scalar / string / []byte by value or pointer),
untyped nil, a map held by value / pointer / double pointer, or something else.
-/
import InspectorModel.Lib.Static
namespace Inspector

/-- What an `any` of the tree holds. `hold`: 0 = map[string]any, 1 = *map[string]any, 2 = **map[string]any.
`nilAt`: 0 = no nil pointer on the way to the map; 1 = the outer pointer is nil; 2 = the inner pointer is nil. -/
inductive JVal
  | nil
  | leaf (s : Src)
  | map (hold : Nat) (nilAt : Nat) (mapNil : Bool) (keys : List Bytes) (vals : List JVal)
  | other
deriving Inhabited

namespace JVal
def lookup : List Bytes → List JVal → Bytes → Option JVal
  | k :: ks, v :: vs, key => if k == key then some v else lookup ks vs key
  | _, _, _ => none
end JVal

/-- `indir` / `indir1`: the map an `any` leads to. -/
inductive Indir
  | map (mapNil : Bool) (keys : List Bytes) (vals : List JVal)
  | unsupported
  | panic

/-- `cfg.samapNilPtrPanics` (here and below): the nil pointer is dereferenced. Off: the panic test is skipped —
the node of a nil pointer carries `mapNil = true, keys = vals = []`, i.e. it behaves like a nil map. -/
def indirOf (cfg : LibCfg) : JVal → Indir
  | .map _ nilAt mapNil ks vs => if nilAt != 0 && cfg.samapNilPtrPanics then .panic else .map mapNil ks vs
  | _ => .unsupported

/-- Result of Get: the node handed out, nothing, unsupported-type error, or panic. -/
inductive JGet
  | node (j : JVal)
  | none
  | unsupported
  | panic
deriving Inhabited

/-- stranymap.go:21-35. -/
def samapGet (cfg : LibCfg) (j : JVal) (p : List Bytes) : JGet :=
  match p with
  | [] => .node j
  | k :: rest =>
    match j with
    | .map _ nilAt _ ks vs =>
      if nilAt != 0 && cfg.samapNilPtrPanics then .panic else
      (match JVal.lookup ks vs k with
       | some x => samapGet cfg x rest
       | none => .none)
    | _ => .unsupported

/-- stranymap.go:74-93; the leaf comparison is StaticInspector.Compare. -/
def samapCmp (cfg : LibCfg) (j : JVal) (p : List Bytes) (op : Op) (right : Seg) : CmpOut × Bool :=
  -- second component: the unsupported-type error was returned
  match p with
  | [] => (.untouched, false)
  | k :: rest =>
    match j with
    | .map _ nilAt mapNil ks vs =>
      if nilAt != 0 && cfg.samapNilPtrPanics then (.panic, false) else
      if mapNil then (.untouched, false) else
      (match JVal.lookup ks vs k with
       | none => (.untouched, false)
       | some x =>
         if rest.isEmpty then
           (match x with
            | .leaf s => (staticCmp cfg s op right, false)
            | _ => (.set false, false))                      -- Static.Compare: default arm
         else samapCmp cfg x rest op right)
    | _ => (.untouched, true)

/-- Length (stranymap.go:172-197) and Capacity (199-221). -/
inductive JLc
  | untouched | val (n : Nat) | unsupported | panic
deriving Repr, DecidableEq, Inhabited

def samapLen (cfg : LibCfg) (j : JVal) (p : List Bytes) : JLc :=
  match p with
  | [] =>
    (match j with
     | .map _ nilAt _ ks _ => if nilAt != 0 && cfg.samapNilPtrPanics then .panic else .val ks.length
     | .leaf s =>
       if s.kind.family == .text then
         (match s.v with
          | .nilptr => if cfg.samapNilPtrPanics then .panic else .untouched
          | v => .val (elemText v).length)
       else .untouched
     | _ => .untouched)
  | k :: rest =>
    match j with
    | .map _ nilAt _ ks vs =>
      if nilAt != 0 && cfg.samapNilPtrPanics then .panic else
      (match JVal.lookup ks vs k with
       | some x => samapLen cfg x rest
       | none => .untouched)
    | _ => .unsupported

def samapCap (cfg : LibCfg) (j : JVal) (p : List Bytes) : JLc :=
  match p with
  | [] =>
    (match j with
     | .leaf s =>
       if s.kind == .bytes then
         (match s.v with
          | .nilptr => if cfg.samapNilPtrPanics then .panic else .untouched
          | .bytes _ _ c => .val c
          | _ => .untouched)
       else .untouched
     | _ => .untouched)
  | k :: rest =>
    match j with
    | .map _ nilAt _ ks vs =>
      if nilAt != 0 && cfg.samapNilPtrPanics then .panic else
      (match JVal.lookup ks vs k with
       | some x => if cfg.samapCapIsLen then samapLen cfg x rest else samapCap cfg x rest
       | none => .untouched)
    | _ => .unsupported

/-- Set (stranymap.go:42-72): the tree afterwards, and the error if any. -/
inductive JSet
  | ok (j : JVal)
  | unsupported (j : JVal)
  | panic
deriving Inhabited

def jsetKey : List Bytes → List JVal → Bytes → JVal → List Bytes × List JVal
  | k :: ks, v :: vs, key, x =>
    if k == key then (k :: ks, x :: vs) else
      let (ks', vs') := jsetKey ks vs key x
      (k :: ks', v :: vs')
  | _, _, key, x => ([key], [x])

/-- The value stored at a leaf: strings and bytes are copied into the buffer (the pointer forms are
dereferenced), everything else is stored as given. `none`: a nil `*string` / `*[]byte` is dereferenced (panic);
repaired, it is stored as given. -/
def samapLeafOf (cfg : LibCfg) (src : Src) : Option JVal :=
  if src.kind.family == .text then
    (match src.v with
     | .nilptr => if cfg.samapNilPtrPanics then none else some (.leaf src)
     | v => some (.leaf { src with isPtr := false, v := v }))
  else some (.leaf src)

def samapSet (cfg : LibCfg) (j : JVal) (p : List Bytes) (src : Src) : JSet :=
  match p with
  | [] => .ok j
  | k :: rest =>
    match j with
    | .map hold nilAt mapNil ks vs =>
      if nilAt != 0 && cfg.samapNilPtrPanics then .panic else
      if mapNil then .ok j else
      if rest.isEmpty then
        (match samapLeafOf cfg src with
         | none => .panic
         | some x => let (ks', vs') := jsetKey ks vs k x; .ok (.map hold 0 false ks' vs'))
      else
        let x := (JVal.lookup ks vs k).getD (.map 0 0 false [] [])
        (match samapSet cfg x rest src with
         | .ok x' => let (ks', vs') := jsetKey ks vs k x'; .ok (.map hold 0 false ks' vs')
         | .unsupported x' => let (ks', vs') := jsetKey ks vs k x'; .unsupported (.map hold 0 false ks' vs')
         | .panic => .panic)
    | _ => .unsupported j

mutual
/-- `cpy` (stranymap.go:267-302): nested maps rebuilt in their holding form, strings and bytes
bufferized, everything else stored as it is. Second component: pointers copied as pointers. `none`: panic.
Repaired, a nil pointer to a map is copied as a pointer to an empty map in the same holding form, a nil
`*string` / `*[]byte` leaf is stored as it is. -/
def samapCpy (cfg : LibCfg) (j : JVal) : Option (JVal × Nat) :=
  match j with
  | .map hold nilAt _ ks vs =>
    if nilAt != 0 && cfg.samapNilPtrPanics then none else
    (match samapCpyList cfg vs with
     | some (vs', s) => some (.map hold 0 false ks vs', s)
     | none => none)
  | .leaf s =>
    if s.kind.family == .text then
      (match s.v with
       | .nilptr => if cfg.samapNilPtrPanics then none else some (j, 0)
       | v => some (.leaf { s with isPtr := false, v := v }, 0))
    else some (j, if s.isPtr && !s.v.isNilPtr then 1 else 0)
  | x => some (x, 0)
def samapCpyList (cfg : LibCfg) (vs : List JVal) : Option (List JVal × Nat) :=
  match vs with
  | [] => some ([], 0)
  | v :: rest =>
    match samapCpy cfg v, samapCpyList cfg rest with
    | some (v', s), some (rest', s') => some (v' :: rest', s + s')
    | _, _ => none
end

/-- Result of Loop: the entries of the map the path leads to are iterated over (in some order); nothing is
(an absent key on the way: `nil` is returned without a call of the iterator); the unsupported-type error; panic. -/
inductive JLoop
  | iterate (keys : List Bytes) (vals : List JVal)
  | nothing
  | unsupported
  | panic
deriving Inhabited

/-- Loop (stranymap.go:103-134): `indir` at every step; with the empty path `for k := range m`, otherwise the
entry of the first key (absent: `return nil`) and the rest of the path. A nil pointer to a map: dereferenced
(panic); repaired, it is a nil map — the entries its node carries (none, `JNilPtrsOK`) are iterated over. -/
def samapLoop (cfg : LibCfg) (j : JVal) (p : List Bytes) : JLoop :=
  match p with
  | [] =>
    (match j with
     | .map _ nilAt _ ks vs => if nilAt != 0 && cfg.samapNilPtrPanics then .panic else .iterate ks vs
     | _ => .unsupported)
  | k :: rest =>
    match j with
    | .map _ nilAt _ ks vs =>
      if nilAt != 0 && cfg.samapNilPtrPanics then .panic else
      (match JVal.lookup ks vs k with
       | some x => samapLoop cfg x rest
       | none => .nothing)
    | _ => .unsupported

/-- The same by way of Get (what the driver computed before `samapLoop` was there; `samapLoop_eq_viaGet`,
Proofs/C18.lean): the node the path leads to, then the step with the empty path. -/
def samapLoopViaGet (cfg : LibCfg) (j : JVal) (p : List Bytes) : JLoop :=
  match samapGet cfg j p with
  | .node (.map _ 0 _ ks vs) => .iterate ks vs
  | .node (.map _ _ _ ks vs) => if cfg.samapNilPtrPanics then .panic else .iterate ks vs
  | .node _ => .unsupported
  | .none => .nothing
  | .unsupported => .unsupported
  | .panic => .panic

/-- Reset (stranymap.go:237-246, `indir2`) of the root `any` in holding form `f` around the map `m`: the map
afterwards, as a plain map (`hold = 0`, `nilAt = 0`); `none`: panic. Through `*map[string]any` / `**map[string]any`
every key is deleted; a map held by value (`ErrMustPointerType`), an untyped nil and a foreign type are left as
they are. A nil `*map[string]any` / a `**map[string]any` whose target is nil: dereferenced (panic); repaired,
Reset does nothing. -/
def samapReset (cfg : LibCfg) (f : Form) (m : JVal) : Option JVal :=
  match f with
  | .ptr | .ptrptr => some (match m with | .map _ _ mn _ _ => .map 0 0 mn [] [] | x => x)
  | .nilPtr | .ptrNilPtr =>
    if cfg.samapNilPtrPanics then none else some (match m with | .map _ _ mn ks vs => .map 0 0 mn ks vs | x => x)
  | _ => some (match m with | .map _ _ mn ks vs => .map 0 0 mn ks vs | x => x)

end Inspector
