package corr

import (
	"errors"
	"reflect"
	"strconv"

	"github.com/koykov/inspector"
)

const lcSentinel = -777

func callLC(ins inspector.Inspector, isCap bool, arg any, path []string) (out string) {
	defer func() {
		if r := recover(); r != nil {
			out = "panic"
		}
	}()
	res := lcSentinel
	var err error
	if isCap {
		err = ins.Capacity(arg, &res, path...)
	} else {
		err = ins.Length(arg, &res, path...)
	}
	if err != nil {
		if errors.Is(err, inspector.ErrUnsupportedType) {
			return "unsupported"
		}
		return "err"
	}
	if res == lcSentinel {
		return "untouched"
	}
	return "val" + strconv.Itoa(res)
}

// OpLC emits one `LC` record: Length (fn=len) or Capacity (fn=cap).
func OpLC(o *Out, e *TypeEntry, v reflect.Value, f Form, path []string, isCap bool) {
	vtok := Ser(v)
	arg, root := MakeArg(e.Type, DeepCopy(v), f)
	res := callLC(e.Ins, isCap, arg, path)
	mut := "0"
	if Ser(root()) != vtok {
		mut = "1"
	}
	fn := "len"
	if isCap {
		fn = "cap"
	}
	vid := o.DeclareVal(e, vtok)
	o.Op("LC " + e.Tid + " " + string(f) + " " + vid + " | " + PathToks(path) + " | " + fn + " | " + mut + " " + res)
}
