#!/bin/sh
# runall.sh [tier] — every registered check once; prints one summary line per property and the exit codes.
cd "$(dirname "$0")/.." || exit 2
tier=${1:-quick}
bad=0
for p in $(python3 -c "import json;print(' '.join(sorted(json.load(open('scripts/props.json')))))"); do
  out=$(python3 scripts/check.py $p $tier 2>&1); rc=$?
  echo "rc=$rc $(echo "$out" | tail -1)"
  if [ $rc -ne 0 ]; then bad=1; echo "$out" | grep VIOLATION | head -3; fi
done
exit $bad
