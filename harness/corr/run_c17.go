package corr

import (
	"reflect"
	"strconv"
)

func init() {
	Runners["C17"] = runC17
}

var seqTexts = []string{"", "a", "bc", "пр", "日本", "x y", "0", "Zed", "zzz", "A", "\x00\xff"}

func genSeq(r *Rng, t reflect.Type, n int) reflect.Value {
	extra := 0
	if r.Chance(1, 3) {
		extra = r.Intn(3)
	}
	s := reflect.MakeSlice(t, n, n+extra)
	for i := 0; i < n; i++ {
		txt := seqTexts[r.Intn(len(seqTexts))]
		if t.Elem().Kind() == reflect.String {
			s.Index(i).SetString(txt)
		} else if !(txt == "" && r.Bool()) {
			b := make([]byte, len(txt), len(txt)+r.Intn(3))
			copy(b, txt)
			s.Index(i).SetBytes(b)
		}
	}
	if n == 0 && r.Bool() {
		return reflect.Zero(t)
	}
	return s
}

var seqForms = []Form{FormVal, FormPtr, FormPtr, FormVal, FormPtrPtr, FormForeign, FormNil, FormNilP}

func runC17(p *Plan) {
	r := NewRng(p.Seed)
	reps := scale(p.Tier, 60, 400)
	es := []*TypeEntry{p.Builtin("strings-s"), p.Builtin("strings-b")}
	idxTexts := []string{"-2", "-1", "0", "1", "2", "3", "4", "5", "6", "x", "", "1.0", "0x1", "01", "+1", "99999999999999999999", " 1"}
	modes := []string{"none", "empty", "filled"}
	for rep := 0; rep < reps; rep++ {
		for ei, e := range es {
			n := r.Intn(5)
			if rep < 3 {
				n = rep
			}
			v := genSeq(r, e.Type, n)
			var paths [][]string
			for i := -2; i <= n+2; i++ {
				paths = append(paths, []string{strconv.Itoa(i)})
			}
			paths = append(paths, []string{}, []string{"0", "0"}, []string{idxTexts[r.Intn(len(idxTexts))]}, []string{idxTexts[r.Intn(len(idxTexts))]})
			for _, path := range paths {
				f := seqForms[r.Intn(len(seqForms))]
				if r.Chance(2, 3) {
					f = seqForms[r.Intn(3)]
				}
				OpGet(p.Out, e, v, f, path, r.Chance(1, 4))
				right := seqTexts[r.Intn(len(seqTexts))]
				if el, ok := NavReflect(v, path); ok && r.Bool() {
					right, _ = ScalarText(el)
				}
				OpCmp(p.Out, e, v, f, path, 1+r.Intn(6), right)
				OpLC(p.Out, e, v, f, path, false)
				OpLC(p.Out, e, v, f, path, true)
				kind := []string{"string", "[]byte"}[ei]
				if r.Chance(1, 5) {
					kind = KindNames[r.Intn(len(KindNames))]
				}
				src := GenSrc(r, kind)
				if r.Chance(1, 3) {
					src.V = reflect.Zero(kindTypes[kind])
					if kind == "[]byte" && r.Bool() {
						src.V = reflect.ValueOf([]byte{})
					}
				}
				fs := f
				if fs == FormNilP && r.Chance(2, 3) {
					fs = FormPtr
				}
				OpSet(p.Out, e, v, fs, path, src, modes[r.Intn(3)])
				OpLoop(p.Out, e, v, f, path, []bool{r.Bool(), r.Bool()}, []int{r.Intn(3), r.Intn(3), r.Intn(3), 0}, false)
				p.Out.Count("len:" + strconv.Itoa(n))
			}
			// DeepEqual within and across representations
			for k := 0; k < 4; k++ {
				eo := es[r.Intn(2)]
				var b reflect.Value
				switch r.Intn(4) {
				case 0: // same content, possibly the other representation
					b = reflect.MakeSlice(eo.Type, n, n)
					for i := 0; i < n; i++ {
						txt, _ := ScalarText(v.Index(i))
						if eo.Type.Elem().Kind() == reflect.String {
							b.Index(i).SetString(txt)
						} else {
							b.Index(i).SetBytes([]byte(txt))
						}
					}
				case 1:
					b = genSeq(r, eo.Type, n)
				case 2:
					b = genSeq(r, eo.Type, 0)
				default:
					b = genSeq(r, eo.Type, r.Intn(5))
				}
				OpDeq2(p.Out, e, eo, v, b, seqForms[r.Intn(len(seqForms))], seqForms[r.Intn(3)])
				OpCopyTo2(p.Out, e, eo, v, genSeq(r, eo.Type, r.Intn(3)), seqForms[r.Intn(3)], []Form{FormPtr, FormPtr, FormVal, FormForeign}[r.Intn(4)], bufClasses[r.Intn(4)])
			}
			OpReset(p.Out, e, v, []Form{FormPtr, FormPtr, FormVal, FormForeign, FormNilP}[r.Intn(5)])
			if n >= 2 {
				OpSeqSetHistory(p.Out, e, v, ei == 1)
			}
		}
	}
}

// OpSeqSetHistory emits one `HS` record: two unbuffered Sets into elements 0 and 1 of ONE sequence, and whether both
// elements read back as assigned afterwards with everything else unchanged ("Set replaces exactly element i … and
// changes nothing else" must also hold for the element the previous call stored).
func OpSeqSetHistory(o *Out, e *TypeEntry, v reflect.Value, isBytes bool) {
	vtok := Ser(v)
	arg, root := MakeArg(e.Type, DeepCopy(v), FormPtr)
	out := "kept"
	func() {
		defer func() {
			if r := recover(); r != nil {
				out = "panic"
			}
		}()
		var a, b any = "hello-first", "yo"
		if isBytes {
			a, b = []byte("hello-first"), []byte("yo")
		}
		if err := e.Ins.Set(arg, a, "0"); err != nil {
			out = "err"
			return
		}
		if err := e.Ins.Set(arg, b, "1"); err != nil {
			out = "err"
			return
		}
		text := func(x reflect.Value) string {
			if isBytes {
				return string(x.Bytes())
			}
			return x.String()
		}
		got := root()
		if got.Len() != v.Len() {
			out = "changed"
			return
		}
		for i := 0; i < v.Len(); i++ {
			want := text(v.Index(i))
			if i == 0 {
				want = "hello-first"
			} else if i == 1 {
				want = "yo"
			}
			if text(got.Index(i)) != want {
				out = "changed"
			}
		}
	}()
	vid := o.DeclareVal(e, vtok)
	o.Op("HS " + e.Tid + " p " + vid + " | " + PathToks([]string{"0"}) + " | " + PathToks([]string{"1"}) + " | " + out)
}
