/-
Props/C01.lean — property theorems for C01 (Get/GetTo return exactly the element the path denotes).

`get_correct` is the property at full strength for the *repaired* emitter model (`GenCfg.fixed`): for every
well-formed type tree, every well-typed value and every path, what GetTo answers is accepted by the
independent specification (`getAccepts (nav n v p)`). The current tree differs from the repaired model
exactly on the listed known-finding classes (`container-fallthrough`, `negative-index`, `nil-root-panics`);
`repo_not_correct` exhibits a concrete input on which the model of the current tree is rejected.
-/
import InspectorModel.Proofs.C01
namespace Inspector.C01

/-- Empty path: GetTo hands out the root itself (compiler.go:383). -/
theorem empty_path (cfg : GenCfg) (n : Node) (v : Val) :
    getM cfg n .ptr v [] = (Res.mk n v).out := rfl

/-- C01 for the repaired emitter, every way a non-nil root reaches the inspector (`T`, `*T`, `**T`). -/
theorem get_correct (n : Node) (v : Val) (p : List Seg) (f : Form)
    (hf : rootOf f = .ok) (hwf : NodeWF n = true) (hwt : WT n v = true) :
    getAccepts (nav n v p) (getM GenCfg.fixed n f v p) = true := by
  have hr : rootOfC GenCfg.fixed f = .ok := by
    unfold rootOfC
    rw [hf]
  unfold getM
  rw [hr]
  cases p with
  | nil => simp [nav, navV, getAccepts, GetOut.beq_refl]
  | cons s rest =>
    simp only []
    exact getN_correct (s :: rest) n v false true hwf hwt (fun h => by cases h)

/-- A typed-nil root is refused like a foreign argument by the repaired emitter: nothing, no panic. -/
theorem get_nil_root (n : Node) (v : Val) (p : List Seg) (f : Form) (hf : rootOf f ≠ .ok) :
    getM GenCfg.fixed n f v p = .none := by
  cases f <;> simp [rootOf] at hf <;> rfl

/-- The answer does not depend on the argument form. -/
theorem get_forms_agree (cfg : GenCfg) (n : Node) (v : Val) (p : List Seg) :
    getM cfg n .val v p = getM cfg n .ptr v p ∧ getM cfg n .ptrptr v p = getM cfg n .ptr v p := ⟨rfl, rfl⟩

section NonVacuity
/-- `struct { M map[string]int; L []int }` with `M = {"a": 7}`, `L = [3]`. -/
def exNode : Node :=
  .struct { typn := "T" } [
    .map { typn := "map[string]int", name := "M" } (.basic { typn := "string", typu := "string" }) (.basic { typn := "int", typu := "int" }),
    .slice { typn := "[]int", name := "L" } (.basic { typn := "int", typu := "int" })]
def exVal : Val := .struct [.map false [.str (strBytes "a")] [.int 7], .slice false [.int 3] 1]
def seg (t : String) (pi : Option Int := none) : Seg := { text := strBytes t, pi := pi }

/-- The hypotheses of `get_correct` are met by a concrete non-trivial input … -/
example : NodeWF exNode = true ∧ WT exNode exVal = true := by decide
/-- … on which the repaired model finds the element. -/
example : (getM GenCfg.fixed exNode .ptr exVal [seg "M", seg "a"] == .some "int" (.int 7)) = true := by decide
/-- The tree as it was at the pinned commit is not accepted: with the path `L.-1` it panicked (finding
`negative-index`, since repaired by a `fix:` commit). The model of the current tree still is not accepted
everywhere: with `L.5` it hands out the enclosing slice (`container-fallthrough`, open). -/
theorem repo_not_correct :
    getAccepts (nav exNode exVal [seg "L", seg "-1" (some (-1))]) (getM GenCfg.original exNode .ptr exVal [seg "L", seg "-1" (some (-1))]) = false ∧
    (getM GenCfg.original exNode .ptr exVal [seg "L", seg "-1" (some (-1))] == .panic) = true ∧
    getAccepts (nav exNode exVal [seg "L", seg "5" (some 5)]) (getM GenCfg.repo exNode .ptr exVal [seg "L", seg "5" (some 5)]) = false := by
  decide
end NonVacuity

end Inspector.C01
