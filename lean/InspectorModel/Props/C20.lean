/-
Props/C20.lean — property theorems for C20 (inspectors are safe to share between goroutines).
-/
import InspectorModel.Lib.Sharing
import InspectorModel.Extracted.Globals
namespace Inspector.C20
open Inspector.Sharing

/-- The frame hypothesis, re-checked against the current source on every run: go/ssa finds no store to
a package-level variable in any function reachable from a runtime entry point (methods of every type
implementing Inspector, Assign*, the buffer API, Bufferize*, EqualFloat*, DEQMustCheck, GetInspector). -/
theorem no_runtime_global_writes : runtimeGlobalWrites = [] := by decide

/-- The second half of the frame hypothesis, from the same extraction: no function reachable from a runtime
entry point hands out memory of a package-level variable — its address, or a slice / map / pointer loaded from
it — by returning it, storing it, boxing it, capturing it or appending / copying into it. (A store *through* such
a handed-out reference happens in the caller's code or behind a pointer parameter, where the store table cannot
see it: `NewByteBuffer` returning the address of one package-level buffer makes every caller's "own" buffer the
same object without a single store to a package-level variable.) -/
theorem no_runtime_global_escapes : runtimeGlobalEscapes = [] := by decide

/-- Non-interference over schedules: if no call stores to shared state then, for every interleaving,
the shared state never changes and every goroutine gets exactly the answers it gets when it runs its
own calls alone. Induction over the schedule. -/
theorem interleaving {S L O : Type} (sched : List (Nat × Call S L O))
    (hf : ∀ e ∈ sched, Framed e.2) (w : World S L) :
    (runSched w sched).1.shared = w.shared ∧
    ∀ g, answersOf g (runSched w sched).2 = (runSolo w.shared (w.priv g) (callsOf g sched)).2 ∧
         (runSched w sched).1.priv g = (runSolo w.shared (w.priv g) (callsOf g sched)).1 := by
  induction sched generalizing w with
  | nil => simp [runSched, runSolo, callsOf, answersOf]
  | cons e rest ih =>
    obtain ⟨g0, c⟩ := e
    have hc : Framed c := hf (g0, c) (by simp)
    have hrest : ∀ e ∈ rest, Framed e.2 := fun e he => hf e (by simp [he])
    have hs : (c.run w.shared (w.priv g0)).1 = w.shared := hc _ _
    let w1 : World S L := { shared := (c.run w.shared (w.priv g0)).1, priv := setPriv w.priv g0 (c.run w.shared (w.priv g0)).2.1 }
    have ih1 := ih hrest w1
    constructor
    · show (runSched w1 rest).1.shared = w.shared
      rw [ih1.1]; exact hs
    · intro g
      have ihg := ih1.2 g
      by_cases hg : g0 = g
      · subst hg
        have hp : w1.priv g0 = (c.run w.shared (w.priv g0)).2.1 := by simp [w1, setPriv]
        have hsh : w1.shared = w.shared := hs
        simp only [runSched, callsOf, answersOf, List.filter_cons, beq_self_eq_true, if_true, List.map_cons, runSolo]
        rw [hp, hsh] at ihg
        constructor
        · simpa [answersOf, callsOf] using ihg.1
        · simpa [callsOf] using ihg.2
      · have hne : (g0 == g) = false := by simp [hg]
        have hp : w1.priv g = w.priv g := by
          simp only [w1, setPriv]
          split
          · rename_i h; exact absurd h.symm hg
          · rfl
        have hsh : w1.shared = w.shared := hs
        simp only [runSched, callsOf, answersOf, List.filter_cons, hne, Bool.false_eq_true, if_false]
        rw [hp, hsh] at ihg
        constructor
        · simpa [answersOf, callsOf] using ihg.1
        · simpa [callsOf] using ihg.2

/-- Non-vacuity: a two-goroutine schedule of framed calls. -/
example : ∃ c : Call Nat Nat Nat, Framed c ∧ c.run 3 4 = (3, 7, 7) :=
  ⟨{ run := fun s l => (s, s + l, s + l) }, fun _ _ => rfl, rfl⟩

end Inspector.C20
