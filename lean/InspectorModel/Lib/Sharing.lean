/-
Lib/Sharing.lean — C20: operations of any number of goroutines that only *read* the shared state
(package-level variables, the shared value) and read/write their own private state (private value,
private buffer, out-parameters) cannot influence one another, whatever the interleaving.
-/
namespace Inspector.Sharing

/-- One call: reads shared state `S`, reads and writes the caller's private state `L`, answers `O`. -/
structure Call (S L O : Type) where
  run : S → L → S × L × O

/-- The frame condition the extractor establishes for every runtime entry point: no store to shared state. -/
def Framed {S L O : Type} (c : Call S L O) : Prop := ∀ s l, (c.run s l).1 = s

/-- State of a run: the shared state and the private state of every goroutine. -/
structure World (S L : Type) where
  shared : S
  priv : Nat → L

def setPriv {L : Type} (f : Nat → L) (g : Nat) (l : L) : Nat → L := fun i => if i = g then l else f i

/-- Run a schedule: a list of (goroutine, call) in the order the calls take effect. Returns the final
world and, in order, which goroutine got which answer. -/
def runSched {S L O : Type} (w : World S L) : List (Nat × Call S L O) → World S L × List (Nat × O)
  | [] => (w, [])
  | (g, c) :: rest =>
    let r := c.run w.shared (w.priv g)
    let (w', outs) := runSched { shared := r.1, priv := setPriv w.priv g r.2.1 } rest
    (w', (g, r.2.2) :: outs)

/-- One goroutine running its own calls alone, against a fixed shared state. -/
def runSolo {S L O : Type} (s : S) (l : L) : List (Call S L O) → L × List O
  | [] => (l, [])
  | c :: rest =>
    let r := c.run s l
    let (l', outs) := runSolo s r.2.1 rest
    (l', r.2.2 :: outs)

def callsOf {S L O : Type} (g : Nat) (sched : List (Nat × Call S L O)) : List (Call S L O) :=
  (sched.filter (fun e => e.1 == g)).map (·.2)

def answersOf {O : Type} (g : Nat) (outs : List (Nat × O)) : List O :=
  (outs.filter (fun e => e.1 == g)).map (·.2)

end Inspector.Sharing
