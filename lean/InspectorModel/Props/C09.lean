/-
Props/C09.lean — property theorems for C09 (Loop visits every element exactly once and honours Break and
Continue).

`loop_correct`: for the repaired emitter model, every well-formed tree, every well-typed value, every path
and every iterator script, the sequence of groups the iterator receives (`obsOf`: key text with its strconv
annotations, inspector name, shape, value) and the way Loop ends are accepted by the independent
specification `loopAccepts`: the path's collection is visited element by element — slices in index order
with keys "0".."n-1", maps entry by entry with a key text that parses back to the entry's key — the
callbacks stop right after the first Break, Continue proceeds, a key is handed over exactly when the
iterator asked for it, and a path that denotes no collection produces no callback.

Hypotheses beyond `NodeWF`/`WT`: `LoopKeysOK` — on the keys of the looped map whose text the script asks
for (and only those): not a `byte` key type, strconv round trip of the oracle, float32 keys representable.
Nil pointer keys are covered (the repaired emitter hands over an empty key text instead of evaluating `*k`). Nothing is assumed for slices, nor for maps whose keys are not asked for.
`RootOK`/`EmitOK` are not needed.

The model of the current tree differs on `loop-root-map-skipped` (`repo_not_correct`), `loop-nil-key-panics`
(`repo_not_correct_nil_key`) and `nil-root-panics` (`repo_nil_root_panics`).
-/
import InspectorModel.Proofs.C09
namespace Inspector.C09

/-- A scalar is never looped. -/
theorem basic_no_callbacks (cfg : GenCfg) (sc : LoopScript) (ft : Val → Bytes) (i : Info) (v : Val) (p : List Seg) :
    (loopN cfg sc ft (.basic i) v p).groups = [] := by
  simp [loopN]

/-- C09 for the repaired emitter. `o` is the strconv oracle for key texts (the harness annotates every key
text the iterator received), `ft` the float text oracle the driver passes to the model. The groups are
observed through `obsOf o`, the mapping under which the driver compares model and implementation
(`modelGroupStr` / `showObsGroup`). -/
theorem loop_correct (sc : LoopScript) (o : Bytes → Seg) (ft : Val → Bytes) (n : Node) (v : Val) (p : List Seg)
    (f : Form) (hf : rootOf f = .ok) (hwf : NodeWF n = true) (hwt : WT n v = true)
    (hk : LoopKeysOK o ft sc n v p = true) :
    loopAccepts sc n v p ((loopM GenCfg.fixed sc ft n f v p).groups.map (obsOf o))
      (loopM GenCfg.fixed sc ft n f v p).fin = true := by
  have hr : rootOfC GenCfg.fixed f = .ok := by
    unfold rootOfC
    rw [hf]
  have hcfg : GenCfg.fixed.loopRootMapSkipped = false := rfl
  have hN := loopN_correct o ft sc p n v hwf hwt hk
  unfold LoopOK at hN
  unfold loopM
  simp only [hr, hcfg, Bool.not_false, Bool.and_true]
  cases p with
  | cons s rest => simpa using hN
  | nil =>
    cases n with
    | basic i => exact loopAccepts_nothing sc _ v [] (loopTarget_leaf _ _ _ rfl)
    | struct i chld => exact loopAccepts_nothing sc _ v [] (by unfold loopTarget; split <;> rfl)
    | map i k mv => simpa using hN
    | slice i e => simpa using hN

/-- Consequence spelled out: a path none of whose prefixes denotes a collection produces no callbacks. -/
theorem loop_no_collection (sc : LoopScript) (ft : Val → Bytes) (n : Node) (v : Val) (p : List Seg)
    (f : Form) (hf : rootOf f = .ok) (hwf : NodeWF n = true) (hwt : WT n v = true)
    (ht : loopTarget n v p = .nothing) :
    (loopM GenCfg.fixed sc ft n f v p).groups = [] ∧ (loopM GenCfg.fixed sc ft n f v p).fin = .done := by
  have hk : LoopKeysOK (fun t => { text := t }) ft sc n v p = true := by
    unfold LoopKeysOK; rw [ht]
  have h := loop_correct sc (fun t => { text := t }) ft n v p f hf hwf hwt hk
  unfold loopAccepts at h
  rw [ht] at h
  simp only [Bool.and_eq_true, List.isEmpty_iff, List.map_eq_nil_iff, beq_iff_eq] at h
  exact h

/-- Consequence spelled out for slices: the number of callbacks is the position of the first Break plus
one, or the length; no hypothesis on keys. -/
theorem loop_slice_count (sc : LoopScript) (ft : Val → Bytes) (i : Info) (e : Node) (nl : Bool) (es : List Val)
    (c : Nat) (f : Form) (hf : rootOf f = .ok) (hb : (i.typn == "[]byte") = false) (hp : i.ptr = false) :
    (loopM GenCfg.fixed sc ft (.slice i e) f (.slice nl es c) []).groups.length = expectedCount sc es.length ∧
    (loopM GenCfg.fixed sc ft (.slice i e) f (.slice nl es c) []).fin = .done := by
  have hr : rootOfC GenCfg.fixed f = .ok := by
    unfold rootOfC
    rw [hf]
  simp [loopM, hr, loopN, hb, hp, derefIf, loopElems_count]

/-- A typed-nil (or otherwise unusable) root is refused by the repaired emitter: no callback, no panic. -/
theorem loop_nil_root (sc : LoopScript) (ft : Val → Bytes) (n : Node) (v : Val) (p : List Seg) (f : Form)
    (hf : rootOf f ≠ .ok) :
    (loopM GenCfg.fixed sc ft n f v p).groups = [] ∧ (loopM GenCfg.fixed sc ft n f v p).fin = .done := by
  have hr : rootOfC GenCfg.fixed f = .early := by
    cases f <;> simp [rootOf] at hf <;> rfl
  unfold loopM
  simp only [hr, ite_self, and_self]

section NonVacuity
/-- `type T struct { M map[int32]string; L []Inner; P *map[*string]int }`, `type Inner struct { B string }`. -/
def exNode : Node :=
  .struct { typn := "T" } [
    .map { typn := "map[int32]string", name := "M" }
      (.basic { typn := "int32", typu := "int32" }) (.basic { typn := "string", typu := "string" }),
    .slice { typn := "[]Inner", name := "L" } (.struct { typn := "Inner" } [.basic { typn := "string", typu := "string", name := "B" }]),
    .map { typn := "map[*string]int", name := "P", ptr := true }
      (.basic { typn := "string", typu := "string", ptr := true }) (.basic { typn := "int", typu := "int" })]
def exVal : Val :=
  .struct [.map false [.int 1, .int (-2), .int 3] [.str (strBytes "a"), .str (strBytes "b"), .str (strBytes "c")],
           .slice false [.struct [.str (strBytes "x")], .struct [.str (strBytes "y")], .struct [.str (strBytes "z")]] 4,
           .ptr (.map false [.ptr (.str (strBytes "k"))] [.int 7])]
def seg (t : String) : Seg := { text := strBytes t }
/-- The strconv oracle on the texts that occur. -/
def exOracle (t : Bytes) : Seg :=
  if t == strBytes "1" then { text := t, pi := some 1, pu := some 1, pf := .ok 1048576 }
  else if t == strBytes "-2" then { text := t, pi := some (-2), pf := .ok (-2097152) }
  else if t == strBytes "3" then { text := t, pi := some 3, pu := some 3, pf := .ok 3145728 }
  else { text := t }
def exFt (_ : Val) : Bytes := []
/-- Keys wanted; Continue, then Break at the second element. -/
def exScript : LoopScript := { wantKey := [true], ctl := [2, 1] }
/-- Keys wanted; never Break. -/
def exScriptAll : LoopScript := { wantKey := [true], ctl := [0] }

example : NodeWF exNode = true ∧ WT exNode exVal = true ∧ RootOK exNode = true ∧ EmitOK exNode = true := by decide
example : LoopKeysOK exOracle exFt exScript exNode exVal [seg "M"] = true := by decide
example : LoopKeysOK exOracle exFt exScriptAll exNode exVal [seg "M"] = true := by decide
example : LoopKeysOK exOracle exFt exScriptAll exNode exVal [seg "P"] = true := by decide
example : LoopKeysOK exOracle exFt exScript exNode exVal [seg "L"] = true := by decide
/-- Map `M`: two callbacks (Continue, then Break), keys "1" and "-2". -/
example : ((loopM GenCfg.fixed exScript exFt exNode .ptr exVal [seg "M"]).groups.map (·.key)) =
    [some (strBytes "1"), some (strBytes "-2")] := by decide
/-- Slice `L`: two of the three elements, keys "0" and "1", handed over with the element type's inspector. -/
example : ((loopM GenCfg.fixed exScript exFt exNode .ptr exVal [seg "L"]).groups.map (fun g => (g.key, g.ins))) =
    [(some (strBytes "0"), "Inner"), (some (strBytes "1"), "Inner")] := by decide
example : ((loopM GenCfg.fixed exScriptAll exFt exNode .ptr exVal [seg "L"]).groups.length) = 3 := by decide
/-- The acceptance relation is not trivially true: dropping a group is rejected. -/
example : loopAccepts exScriptAll exNode exVal [seg "L"]
    (((loopM GenCfg.fixed exScriptAll exFt exNode .ptr exVal [seg "L"]).groups.map (obsOf exOracle)).drop 1) .done = false := by
  decide

/-- `type RM map[string]int` with one entry. -/
def exRootMap : Node :=
  .map { typn := "RM" } (.basic { typn := "string", typu := "string" }) (.basic { typn := "int", typu := "int" })
def exRootMapVal : Val := .map false [.str (strBytes "a")] [.int 1]

example : NodeWF exRootMap = true ∧ WT exRootMap exRootMapVal = true ∧ RootOK exRootMap = true ∧
    LoopKeysOK exOracle exFt exScriptAll exRootMap exRootMapVal [] = true := by decide

/-- Known finding `loop-root-map-skipped`: the emitted Loop of the tree as it was at the pinned commit (GenCfg.original; since repaired by a `fix:` commit) returned at once for a root
map type on the empty path; the property demands one callback per entry. -/
theorem repo_not_correct :
    loopAccepts exScriptAll exRootMap exRootMapVal []
      ((loopM GenCfg.original exScriptAll exFt exRootMap .ptr exRootMapVal []).groups.map (obsOf exOracle))
      (loopM GenCfg.original exScriptAll exFt exRootMap .ptr exRootMapVal []).fin = false := by
  decide

/-- The same input is accepted for the repaired emitter (an instance of `loop_correct`). -/
example :
    loopAccepts exScriptAll exRootMap exRootMapVal []
      ((loopM GenCfg.fixed exScriptAll exFt exRootMap .ptr exRootMapVal []).groups.map (obsOf exOracle))
      (loopM GenCfg.fixed exScriptAll exFt exRootMap .ptr exRootMapVal []).fin = true := by
  decide

/-- `type RS []int`. -/
def exRootSlice : Node := .slice { typn := "RS" } (.basic { typn := "int", typu := "int" })

/-- Known finding `nil-root-panics`: Loop of the current tree on a typed-nil root slice panics
(`range *x` with `x == nil`); the repaired emitter returns (`loop_nil_root`). -/
theorem repo_nil_root_panics :
    (loopM GenCfg.original exScriptAll exFt exRootSlice .nilPtr (.slice true [] 0) []).fin = .panic := by
  decide

/-- `type NK struct { N map[*string]int }` holding `{nil: 1, &"k": 2}`. -/
def exNilKeyNode : Node :=
  .struct { typn := "NK" } [
    .map { typn := "map[*string]int", name := "N" }
      (.basic { typn := "string", typu := "string", ptr := true }) (.basic { typn := "int", typu := "int" })]
def exNilKeyVal : Val := .struct [.map false [.nilptr, .ptr (.str (strBytes "k"))] [.int 1, .int 2]]

/-- All hypotheses of `loop_correct` hold for it: `LoopKeysOK` does not exclude nil pointer keys. -/
example : NodeWF exNilKeyNode = true ∧ WT exNilKeyNode exNilKeyVal = true ∧ RootOK exNilKeyNode = true ∧
    LoopKeysOK exOracle exFt exScriptAll exNilKeyNode exNilKeyVal [seg "N"] = true := by decide

/-- Known finding `loop-nil-key-panics`: with the key asked for, the emitted key rendering of the current
tree dereferences the nil pointer key (`*k`): Loop panics, the property demands one callback per entry. -/
theorem repo_not_correct_nil_key :
    (loopM GenCfg.original exScriptAll exFt exNilKeyNode .ptr exNilKeyVal [seg "N"]).fin = .panic ∧
    loopAccepts exScriptAll exNilKeyNode exNilKeyVal [seg "N"]
      ((loopM GenCfg.original exScriptAll exFt exNilKeyNode .ptr exNilKeyVal [seg "N"]).groups.map (obsOf exOracle))
      (loopM GenCfg.original exScriptAll exFt exNilKeyNode .ptr exNilKeyVal [seg "N"]).fin = false := by
  decide

/-- The repaired emitter visits both entries (empty key text for the nil key) and is accepted — an
instance of `loop_correct`. -/
example :
    (loopM GenCfg.fixed exScriptAll exFt exNilKeyNode .ptr exNilKeyVal [seg "N"]).groups.map (·.key) =
      [some [], some (strBytes "k")] ∧
    loopAccepts exScriptAll exNilKeyNode exNilKeyVal [seg "N"]
      ((loopM GenCfg.fixed exScriptAll exFt exNilKeyNode .ptr exNilKeyVal [seg "N"]).groups.map (obsOf exOracle))
      (loopM GenCfg.fixed exScriptAll exFt exNilKeyNode .ptr exNilKeyVal [seg "N"]).fin = true := by
  decide

/-- What is left of the key hypothesis is needed — a float32-typed key that is no float32 is well-typed
for `WT`, the property reads the key text back through `float32(…)`, and `LoopKeysOK` is what excludes it;
it asks nothing when the iterator does not want keys. -/
def exF32Map : Node :=
  .map { typn := "FM" } (.basic { typn := "float32", typu := "float32" }) (.basic { typn := "int", typu := "int" })
def exF32Val : Val := .map false [.float 123456789012345] [.int 1]
def exF32Oracle (t : Bytes) : Seg := { text := t, pf := .ok 123456789012345 }
example : NodeWF exF32Map = true ∧ WT exF32Map exF32Val = true ∧
    LoopKeysOK exF32Oracle exFt exScriptAll exF32Map exF32Val [] = false ∧
    loopAccepts exScriptAll exF32Map exF32Val []
      ((loopM GenCfg.fixed exScriptAll exFt exF32Map .ptr exF32Val []).groups.map (obsOf exF32Oracle))
      (loopM GenCfg.fixed exScriptAll exFt exF32Map .ptr exF32Val []).fin = false ∧
    LoopKeysOK exF32Oracle exFt { wantKey := [false], ctl := [0] } exF32Map exF32Val [] = true := by
  decide
end NonVacuity

/-! ### The tree as it is now

After the two generator `fix:` commits (root map types are looped, a nil pointer key is handed over as an empty
key text) no switch that Loop consults is left on in `GenCfg.repo` for a non-nil root: the model of the current
tree *is* the repaired model, so `loop_correct` is a statement about the emitter as it stands. -/
section CurrentTree

theorem loopN_repo (sc : LoopScript) (ft : Val → Bytes) (p : List Seg) : ∀ (n : Node) (v : Val),
    loopN GenCfg.repo sc ft n v p = loopN GenCfg.fixed sc ft n v p := by
  induction p with
  | nil =>
    intro n v
    cases n <;> simp only [loopN] <;> rfl
  | cons s rest ih =>
    intro n v
    cases n with
    | struct i chld =>
      simp only [loopN]
      split
      · rfl
      · split
        · split
          · rfl
          · split
            · rfl
            · exact ih _ _
        · rfl
    | _ => simp only [loopN] <;> rfl

theorem loopM_repo (sc : LoopScript) (ft : Val → Bytes) (n : Node) (v : Val) (p : List Seg) (f : Form)
    (hf : rootOf f = .ok) : loopM GenCfg.repo sc ft n f v p = loopM GenCfg.fixed sc ft n f v p := by
  have h1 : rootOfC GenCfg.repo f = .ok := by unfold rootOfC; rw [hf]
  have h2 : rootOfC GenCfg.fixed f = .ok := by unfold rootOfC; rw [hf]
  unfold loopM
  simp only [h1, h2, loopN_repo]
  rfl

theorem loop_current (sc : LoopScript) (o : Bytes → Seg) (ft : Val → Bytes) (n : Node) (v : Val) (p : List Seg)
    (f : Form) (hf : rootOf f = .ok) (hwf : NodeWF n = true) (hwt : WT n v = true)
    (hk : LoopKeysOK o ft sc n v p = true) :
    loopAccepts sc n v p ((loopM GenCfg.repo sc ft n f v p).groups.map (obsOf o))
      (loopM GenCfg.repo sc ft n f v p).fin = true := by
  rw [loopM_repo sc ft n v p f hf]; exact loop_correct sc o ft n v p f hf hwf hwt hk

end CurrentTree

end Inspector.C09
