/-
Proofs/C07.lean — lemma library for C07 (accumulating buffer): arena frame lemmas, the description of
Go's `append` on a window (`appendWin_cases`), the invariant `BufInv` of the repaired (tight) configuration
and its preservation, and the one-step stability of every other live handle.
-/
import InspectorModel.Lib.Buffer
import InspectorModel.Spec.BufSpec
set_option linter.unusedSimpArgs false
set_option linter.unusedVariables false
namespace Inspector.C07

/-! ### Arena basics -/

/-- Length (= capacity) of arena array `k`; 0 when there is no such array. -/
def arrLen (arrays : List Bytes) (k : Nat) : Nat := (arrays.getD k []).length

theorem length_writeAt (a : Bytes) (q : Nat) (p : Bytes) (h : q + p.length ≤ a.length) :
    (writeAt a q p).length = a.length := by
  simp only [writeAt, List.length_append, List.length_take, List.length_drop]; omega

theorem getElem?_writeAt (a : Bytes) (q : Nat) (p : Bytes) (i : Nat) (h : q + p.length ≤ a.length)
    (hi : i < q ∨ q + p.length ≤ i) : (writeAt a q p)[i]? = a[i]? := by
  unfold writeAt
  rcases hi with hi | hi
  · rw [List.append_assoc, List.getElem?_append_left (by simp only [List.length_take]; omega)]
    rw [List.getElem?_take]; simp only [hi, if_true]
  · rw [List.getElem?_append_right (by simp only [List.length_append, List.length_take]; omega)]
    rw [List.getElem?_drop]
    simp only [List.length_append, List.length_take]
    congr 1; omega

theorem take_drop_congr (a b : Bytes) (off len : Nat)
    (h : ∀ i, off ≤ i → i < off + len → a[i]? = b[i]?) : (a.drop off).take len = (b.drop off).take len := by
  apply List.ext_getElem?
  intro i
  simp only [List.getElem?_take, List.getElem?_drop]
  by_cases hi : i < len
  · simp only [hi, if_true]; exact h _ (by omega) (by omega)
  · simp only [hi, if_false]

theorem getD_setArr_ne (arrays : List Bytes) (k j : Nat) (a' : Bytes) (h : j ≠ k) :
    (setArr arrays k a').getD j [] = arrays.getD j [] := by
  simp only [setArr, List.getD_eq_getElem?_getD]
  rw [List.getElem?_set_ne (by omega)]

theorem getD_setArr_self (arrays : List Bytes) (k : Nat) (a' : Bytes) (h : k < arrays.length) :
    (setArr arrays k a').getD k [] = a' := by
  simp only [setArr, List.getD_eq_getElem?_getD]
  rw [List.getElem?_set_self h]; rfl

theorem setArr_oob (arrays : List Bytes) (k : Nat) (a' : Bytes) (h : arrays.length ≤ k) :
    setArr arrays k a' = arrays := by
  simp only [setArr]; exact List.set_eq_of_length_le h

/-- Writing a same-length array back keeps every array length. -/
theorem arrLen_setArr (arrays : List Bytes) (k j : Nat) (a' : Bytes) (h : a'.length = arrLen arrays k) :
    arrLen (setArr arrays k a') j = arrLen arrays j := by
  unfold arrLen at *
  by_cases hj : j = k
  · subst hj
    by_cases hk : j < arrays.length
    · rw [getD_setArr_self _ _ _ hk, h]
    · rw [setArr_oob _ _ _ (by omega)]
  · rw [getD_setArr_ne _ _ _ _ hj]

theorem arrLen_oob (arrays : List Bytes) (k : Nat) (h : arrays.length ≤ k) : arrLen arrays k = 0 := by
  unfold arrLen
  simp only [List.getD_eq_getElem?_getD]
  rw [List.getElem?_eq_none h]; rfl

theorem getD_append_ne (arrays : List Bytes) (a : Bytes) (j : Nat) (h : j ≠ arrays.length) :
    (arrays ++ [a]).getD j [] = arrays.getD j [] := by
  simp only [List.getD_eq_getElem?_getD]
  by_cases hj : j < arrays.length
  · rw [List.getElem?_append_left hj]
  · rw [List.getElem?_eq_none (by simp only [List.length_append, List.length_singleton]; omega),
        List.getElem?_eq_none (by omega)]

theorem getD_append_self (arrays : List Bytes) (a : Bytes) :
    (arrays ++ [a]).getD arrays.length [] = a := by
  simp only [List.getD_eq_getElem?_getD]
  rw [List.getElem?_append_right (Nat.le_refl _)]
  simp

theorem arrLen_append_ne (arrays : List Bytes) (a : Bytes) (j : Nat) (h : j ≠ arrays.length) :
    arrLen (arrays ++ [a]) j = arrLen arrays j := by
  unfold arrLen; rw [getD_append_ne _ _ _ h]

theorem arrLen_append_self (arrays : List Bytes) (a : Bytes) :
    arrLen (arrays ++ [a]) arrays.length = a.length := by
  unfold arrLen; rw [getD_append_self]

theorem arrLen_append_le (arrays : List Bytes) (a : Bytes) (j : Nat) :
    arrLen arrays j ≤ arrLen (arrays ++ [a]) j := by
  by_cases h : j = arrays.length
  · subst h; rw [arrLen_oob _ _ (Nat.le_refl _)]; omega
  · rw [arrLen_append_ne _ _ _ h]; omega

/-! ### Windows -/

/-- The window (spare capacity included) lies inside its array. -/
def WinIn (arrays : List Bytes) (w : Win) : Prop := w.len ≤ w.cap ∧ w.off + w.cap ≤ arrLen arrays w.arr

/-- Two windows do not overlap, spare capacity included. -/
def WinDisj (a b : Win) : Prop := a.arr ≠ b.arr ∨ a.off + a.cap ≤ b.off ∨ b.off + b.cap ≤ a.off

/-- Window `h` (spare capacity included) does not reach into the free region `[off+len, off+cap)` of `b`. -/
def WinFree (h b : Win) : Prop := h.arr ≠ b.arr ∨ h.off + h.cap ≤ b.off + b.len ∨ b.off + b.cap ≤ h.off

instance (arrays : List Bytes) (w : Win) : Decidable (WinIn arrays w) := by unfold WinIn; infer_instance
instance (a b : Win) : Decidable (WinDisj a b) := by unfold WinDisj; infer_instance
instance (a b : Win) : Decidable (WinFree a b) := by unfold WinFree; infer_instance

theorem WinDisj.symm {a b : Win} (h : WinDisj a b) : WinDisj b a := by
  unfold WinDisj at *; omega

theorem WinIn.mono {arrays arrays' : List Bytes} {w : Win} (h : WinIn arrays w)
    (hm : ∀ k, arrLen arrays k ≤ arrLen arrays' k) : WinIn arrays' w := by
  unfold WinIn at *; have := hm w.arr; omega

theorem length_readWin (arrays : List Bytes) (w : Win) (h : WinIn arrays w) : (readWin arrays w).length = w.len := by
  unfold WinIn arrLen at h
  simp only [readWin, List.length_take, List.length_drop]; omega

/-- Frame: a write of `p` at `[q, q+|p|)` of array `k` is invisible through a window that avoids that range. -/
theorem readWin_write (arrays : List Bytes) (k q : Nat) (p : Bytes) (x : Win)
    (hq : q + p.length ≤ arrLen arrays k)
    (hx : x.arr ≠ k ∨ x.off + x.len ≤ q ∨ q + p.length ≤ x.off) :
    readWin (setArr arrays k (writeAt (arrays.getD k []) q p)) x = readWin arrays x := by
  unfold readWin
  by_cases hk : x.arr = k
  · by_cases hl : k < arrays.length
    · rw [hk, getD_setArr_self _ _ _ hl]
      apply take_drop_congr
      intro i h1 h2
      apply getElem?_writeAt _ _ _ _ hq
      omega
    · rw [setArr_oob _ _ _ (by omega)]
  · rw [getD_setArr_ne _ _ _ _ hk]

/-- Frame: a new array at the end of the arena is invisible through every window inside the old arena. -/
theorem readWin_append (arrays : List Bytes) (a : Bytes) (x : Win) (hx : WinIn arrays x) :
    readWin (arrays ++ [a]) x = readWin arrays x := by
  unfold readWin
  by_cases hk : x.arr = arrays.length
  · have h0 : x.len = 0 := by
      unfold WinIn at hx
      rw [hk, arrLen_oob _ _ (Nat.le_refl _)] at hx; omega
    rw [h0]; simp
  · rw [getD_append_ne _ _ _ hk]

/-! ### Go's append on a window -/

/-- Previous length of a (possibly nil) slice. -/
def lenOf : Option Win → Nat
  | some w => w.len
  | none => 0

def contentOf (arrays : List Bytes) : Option Win → Bytes
  | some w => readWin arrays w
  | none => []

/-- The three ways `append(w, p...)` can go: nothing to do on a nil slice, in place, or a fresh array at the
end of the arena (whatever capacity the runtime picked). -/
theorem appendWin_cases (arrays : List Bytes) (w : Option Win) (p : Bytes) (nc : Nat)
    (hin : ∀ w0, w = some w0 → WinIn arrays w0) :
    (w = none ∧ p = [] ∧ appendWin arrays w p nc = (arrays, none)) ∨
    (∃ w0, w = some w0 ∧ w0.len + p.length ≤ w0.cap ∧
       appendWin arrays w p nc =
         (setArr arrays w0.arr (writeAt (arrays.getD w0.arr []) (w0.off + w0.len) p),
          some { w0 with len := w0.len + p.length })) ∨
    (∃ a, 0 < lenOf w + p.length ∧ lenOf w + p.length ≤ a.length ∧
       (∀ w0, w = some w0 → w0.cap < w0.len + p.length) ∧
       a.take (lenOf w + p.length) = contentOf arrays w ++ p ∧
       appendWin arrays w p nc =
         (arrays ++ [a], some { arr := arrays.length, off := 0, len := lenOf w + p.length, cap := a.length })) := by
  cases w with
  | none =>
    by_cases hp : p = []
    · left; subst hp; exact ⟨rfl, rfl, rfl⟩
    · right; right
      have hpl : 0 < p.length := List.length_pos_iff.mpr hp
      refine ⟨p ++ List.replicate (max nc p.length - p.length) 0, ?_, ?_, ?_, ?_, ?_⟩
      · simp only [lenOf]; omega
      · simp only [lenOf, List.length_append, List.length_replicate]; omega
      · intro w0 h; cases h
      · simp only [lenOf, contentOf, Nat.zero_add, List.nil_append]
        rw [List.take_append_of_le_length (Nat.le_refl _), List.take_length]
      · have he : p.isEmpty = false := by cases p with | nil => exact absurd rfl hp | cons _ _ => rfl
        simp only [appendWin, he, lenOf, Nat.zero_add, List.length_append, List.length_replicate]
        have : p.length + (max nc p.length - p.length) = max nc p.length := by omega
        simp [this]
  | some w0 =>
    have hw := hin w0 rfl
    by_cases hfit : w0.len + p.length ≤ w0.cap
    · right; left
      refine ⟨w0, rfl, hfit, ?_⟩
      simp only [appendWin, hfit, if_true]
    · right; right
      have hl := length_readWin arrays w0 hw
      refine ⟨readWin arrays w0 ++ p ++ List.replicate (max nc (w0.len + p.length) - (readWin arrays w0 ++ p).length) 0, ?_, ?_, ?_, ?_, ?_⟩
      · simp only [lenOf]; omega
      · simp only [lenOf, List.length_append, List.length_replicate, hl]; omega
      · intro w1 h; cases h; omega
      · simp only [lenOf, contentOf]
        rw [List.take_append_of_le_length (by simp only [List.length_append, hl]; omega)]
        rw [List.take_of_length_le (by simp only [List.length_append, hl]; omega)]
      · simp only [appendWin, hfit, if_false, lenOf, List.length_append, List.length_replicate, hl]
        have : w0.len + p.length + (max nc (w0.len + p.length) - (w0.len + p.length)) = max nc (w0.len + p.length) := by omega
        simp [this]

/-- Everything later proofs need to know about one `append`. -/
structure AppendSpec (arrays : List Bytes) (w : Option Win) (p : Bytes) (arrays' : List Bytes) (w' : Option Win) : Prop where
  /-- arrays are never shortened or dropped -/
  mono : ∀ k, arrLen arrays k ≤ arrLen arrays' k
  /-- only the free region `[off+len, off+cap)` of `w` can be written -/
  frame : ∀ x, WinIn arrays x →
    (∀ w0, w = some w0 → x.arr ≠ w0.arr ∨ x.off + x.len ≤ w0.off + w0.len ∨ w0.off + w0.cap ≤ x.off) →
    readWin arrays' x = readWin arrays x
  resIn : ∀ b, w' = some b → WinIn arrays' b
  resLen : ∀ b, w' = some b → b.len = lenOf w + p.length
  resNone : w' = none → w = none ∧ p = [] ∧ arrays' = arrays
  /-- the result sits where `w` was, or in a fresh array no old window reaches -/
  place : ∀ b, w' = some b →
    (∃ w0, w = some w0 ∧ b.arr = w0.arr ∧ b.off = w0.off ∧ b.cap = w0.cap ∧ w0.len + p.length ≤ w0.cap) ∨
    (b.off = 0 ∧ 0 < b.len ∧ ∀ x, WinIn arrays x → x.arr ≠ b.arr ∨ x.off + x.cap = 0)
  /-- the appended bytes are there … -/
  tail : ∀ b, w' = some b → ((arrays'.getD b.arr []).drop (b.off + lenOf w)).take p.length = p
  /-- … after the old content -/
  head : ∀ b, w' = some b → ((arrays'.getD b.arr []).drop b.off).take (lenOf w) = contentOf arrays w

theorem writeAt_tail (a : Bytes) (q : Nat) (p : Bytes) (hq : q ≤ a.length) :
    ((writeAt a q p).drop q).take p.length = p := by
  unfold writeAt
  rw [List.append_assoc, List.drop_left' (by simp only [List.length_take]; omega)]
  rw [List.take_left' rfl]

theorem appendWin_spec (arrays : List Bytes) (w : Option Win) (p : Bytes) (nc : Nat)
    (hin : ∀ w0, w = some w0 → WinIn arrays w0) :
    AppendSpec arrays w p (appendWin arrays w p nc).1 (appendWin arrays w p nc).2 := by
  rcases appendWin_cases arrays w p nc hin with ⟨hw, hp, he⟩ | ⟨w0, hw, hfit, he⟩ | ⟨a, hpos, hlen, hnofit, htake, he⟩
  · rw [he]
    exact { mono := fun k => Nat.le_refl _, frame := fun _ _ _ => rfl, resIn := fun b h => (by cases h),
            resLen := fun b h => (by cases h), resNone := fun _ => ⟨hw, hp, rfl⟩, place := fun b h => (by cases h),
            tail := fun b h => (by cases h), head := fun b h => (by cases h) }
  · rw [he]
    have hw0 := hin w0 hw
    have hq : w0.off + w0.len + p.length ≤ arrLen arrays w0.arr := by unfold WinIn at hw0; omega
    have hlw : (writeAt (arrays.getD w0.arr []) (w0.off + w0.len) p).length = arrLen arrays w0.arr :=
      length_writeAt _ _ _ hq
    have hframe : ∀ x, WinIn arrays x →
        (∀ w1, w = some w1 → x.arr ≠ w1.arr ∨ x.off + x.len ≤ w1.off + w1.len ∨ w1.off + w1.cap ≤ x.off) →
        readWin (setArr arrays w0.arr (writeAt (arrays.getD w0.arr []) (w0.off + w0.len) p)) x = readWin arrays x := by
      intro x hx hav
      apply readWin_write _ _ _ _ _ hq
      have := hav w0 hw
      unfold WinIn at hw0; omega
    refine { mono := ?_, frame := hframe, resIn := ?_, resLen := ?_, resNone := ?_, place := ?_, tail := ?_, head := ?_ }
    · intro k; simp only []; rw [arrLen_setArr _ _ _ _ hlw]; exact Nat.le_refl _
    · intro b hb; cases hb
      unfold WinIn at *; simp only []; rw [arrLen_setArr _ _ _ _ hlw]; omega
    · intro b hb; cases hb; subst hw; rfl
    · intro h; cases h
    · intro b hb; cases hb; left; exact ⟨w0, hw, rfl, rfl, rfl, hfit⟩
    · intro b hb; cases hb; subst hw
      simp only [lenOf]
      by_cases hk : w0.arr < arrays.length
      · rw [getD_setArr_self _ _ _ hk]
        exact writeAt_tail _ _ _ (by unfold arrLen at hq; omega)
      · rw [arrLen_oob _ _ (by omega)] at hq
        have : p = [] := List.eq_nil_of_length_eq_zero (by omega)
        subst this; simp
    · intro b hb; cases hb
      have := hframe w0 hw0 (fun w1 h1 => by rw [hw] at h1; cases h1; omega)
      subst hw
      simp only [lenOf, contentOf]
      exact this
  · rw [he]
    have hcl : (contentOf arrays w).length = lenOf w := by
      cases w with
      | none => rfl
      | some w0 => exact length_readWin arrays w0 (hin w0 rfl)
    refine { mono := ?_, frame := ?_, resIn := ?_, resLen := ?_, resNone := ?_, place := ?_, tail := ?_, head := ?_ }
    · intro k; exact arrLen_append_le _ _ _
    · intro x hx _; exact readWin_append _ _ _ hx
    · intro b hb; cases hb
      unfold WinIn; simp only []; rw [arrLen_append_self]; omega
    · intro b hb; cases hb; rfl
    · intro h; cases h
    · intro b hb; cases hb; right
      refine ⟨rfl, hpos, ?_⟩
      intro x hx
      by_cases hk : x.arr = arrays.length
      · right; unfold WinIn at hx; rw [hk, arrLen_oob _ _ (Nat.le_refl _)] at hx; omega
      · left; exact hk
    · intro b hb; cases hb
      simp only [getD_append_self, Nat.zero_add]
      have h1 : (a.take (lenOf w + p.length)).drop (lenOf w) = p := by
        rw [htake, List.drop_left' hcl]
      rw [List.drop_take] at h1
      have : lenOf w + p.length - lenOf w = p.length := by omega
      rw [this] at h1; exact h1
    · intro b hb; cases hb
      simp only [getD_append_self, List.drop_zero]
      have h1 : (a.take (lenOf w + p.length)).take (lenOf w) = contentOf arrays w := by
        rw [htake, List.take_left' hcl]
      rw [List.take_take] at h1
      have : min (lenOf w) (lenOf w + p.length) = lenOf w := by omega
      rw [this] at h1; exact h1

/-! ### The invariant of the repaired configuration -/

/-- The repaired configuration: values are handed out as `b[off:len:len]`. -/
def tight : BufCfg := { openCap := false }

/-- Invariant of the tight configuration.
* `bufIn`, `hIn`: the buffer's window and every handed-out window (stale ones too), spare capacity included,
  lie inside their arrays;
* `disj`: the windows of two distinct live (not stale) handles, spare capacity included, do not overlap —
  byte slices and strings alike, so a string is disjoint from every range a client can write;
* `free`: no live handle reaches into the buffer's free region `[off+len, off+cap)`, the only bytes the
  buffer itself will write. -/
structure BufInv (s : BufSt) : Prop where
  bufIn : ∀ b, s.buf = some b → WinIn s.arrays b
  hIn : ∀ (i : Nat) (hd : Handle), s.handles[i]? = some hd → WinIn s.arrays hd.win
  disj : ∀ (i j : Nat) (hi hj : Handle), i ≠ j → s.handles[i]? = some hi → s.handles[j]? = some hj →
    hi.stale = false → hj.stale = false → WinDisj hi.win hj.win
  free : ∀ (i : Nat) (hd : Handle) (b : Win), s.handles[i]? = some hd → hd.stale = false → s.buf = some b → WinFree hd.win b

theorem BufInv.mono_arrays {s : BufSt} (inv : BufInv s) (arrays' : List Bytes)
    (hm : ∀ k, arrLen s.arrays k ≤ arrLen arrays' k) : BufInv { s with arrays := arrays' } :=
  { bufIn := fun b hb => (inv.bufIn b hb).mono hm
    hIn := fun i hd h => (inv.hIn i hd h).mono hm
    disj := inv.disj
    free := inv.free }

theorem getElem?_upd_append {α : Type} (l : List α) (x y : α) (i : Nat) (h : (l ++ [x])[i]? = some y) :
    (i ≠ l.length ∧ l[i]? = some y) ∨ (i = l.length ∧ y = x) := by
  by_cases hi : i < l.length
  · rw [List.getElem?_append_left hi] at h; left; exact ⟨by omega, h⟩
  · by_cases hi' : i = l.length
    · subst hi'
      rw [List.getElem?_append_right (Nat.le_refl _)] at h
      simp at h
      right; exact ⟨rfl, h.symm⟩
    · rw [List.getElem?_eq_none (by simp only [List.length_append, List.length_singleton]; omega)] at h
      cases h

theorem getElem?_upd_set {α : Type} (l : List α) (t : Nat) (x y : α) (i : Nat) (h : (l.set t x)[i]? = some y) :
    (i ≠ t ∧ l[i]? = some y) ∨ (i = t ∧ y = x) := by
  by_cases hi : i = t
  · subst hi
    by_cases hl : i < l.length
    · rw [List.getElem?_set_self hl] at h; right; exact ⟨rfl, (Option.some.inj h).symm⟩
    · rw [List.getElem?_eq_none (by simp only [List.length_set]; omega)] at h; cases h
  · rw [List.getElem?_set_ne (by omega)] at h; left; exact ⟨hi, h⟩

/-- Replace the buffer window and put a new handle `nh` at index `t` (appended or overwritten). -/
theorem BufInv.update {s : BufSt} (inv : BufInv s) (buf' : Option Win) (handles' : List Handle) (t : Nat) (nh : Handle)
    (hupd : ∀ i hd', handles'[i]? = some hd' → (i ≠ t ∧ s.handles[i]? = some hd') ∨ (i = t ∧ hd' = nh))
    (hbuf : ∀ b, buf' = some b → WinIn s.arrays b)
    (hnew : WinIn s.arrays nh.win)
    (hdisj : nh.stale = false → ∀ i hd, i ≠ t → s.handles[i]? = some hd → hd.stale = false → WinDisj hd.win nh.win)
    (hfreeOld : ∀ i hd b, i ≠ t → s.handles[i]? = some hd → hd.stale = false → buf' = some b → WinFree hd.win b)
    (hfreeNew : nh.stale = false → ∀ b, buf' = some b → WinFree nh.win b) :
    BufInv { arrays := s.arrays, buf := buf', handles := handles' } := by
  refine { bufIn := hbuf, hIn := ?_, disj := ?_, free := ?_ }
  · intro i hd h
    rcases hupd i hd h with ⟨_, h'⟩ | ⟨_, h'⟩
    · exact inv.hIn i hd h'
    · rw [h']; exact hnew
  · intro i j hi hj hne h1 h2 s1 s2
    rcases hupd i hi h1 with ⟨hit, h1'⟩ | ⟨hit, h1'⟩ <;> rcases hupd j hj h2 with ⟨hjt, h2'⟩ | ⟨hjt, h2'⟩
    · exact inv.disj i j hi hj hne h1' h2' s1 s2
    · subst h2'; exact hdisj s2 i hi hit h1' s1
    · subst h1'; exact (hdisj s1 j hj hjt h2' s2).symm
    · omega
  · intro i hd b h st hb
    rcases hupd i hd h with ⟨hit, h'⟩ | ⟨hit, h'⟩
    · exact hfreeOld i hd b hit h' st hb
    · subst h'; exact hfreeNew st b hb

/-- The window handed out in tight mode for `n` bytes appended at `off` of buffer window `b`. -/
def outWin (b : Win) (off n : Nat) : Win := { arr := b.arr, off := b.off + off, len := n, cap := n }
def nilWin : Win := { arr := 0, off := 0, len := 0, cap := 0 }

theorem handOut_tight (b : Win) (off n : Nat) (isStr : Bool) :
    (if isStr = true then { handOut tight b off n with cap := (handOut tight b off n).len } else handOut tight b off n)
      = outWin b off n := by
  cases isStr <;> rfl

/-- Hand-out after a successful append to the buffer. -/
theorem BufInv.handOut {s : BufSt} (inv : BufInv s) (p : Bytes) (arrays' : List Bytes) (b : Win)
    (sp : AppendSpec s.arrays s.buf p arrays' (some b)) (handles' : List Handle) (t : Nat) (isStr : Bool)
    (hupd : ∀ i hd', handles'[i]? = some hd' → (i ≠ t ∧ s.handles[i]? = some hd') ∨
      (i = t ∧ hd' = { win := outWin b (lenOf s.buf) p.length, isStr := isStr, stale := false })) :
    BufInv { arrays := arrays', buf := some b, handles := handles' } := by
  have inv' := inv.mono_arrays arrays' sp.mono
  have hb := sp.resIn b rfl
  have hl := sp.resLen b rfl
  have hpl := sp.place b rfl
  apply BufInv.update inv' (some b) handles' t _ hupd
  · intro b' h; cases h; exact hb
  · unfold WinIn at *; simp only [outWin]; omega
  · intro _ i hd hit hi hst
    have hin := inv.hIn i hd hi
    rcases hpl with ⟨w0, hw0, h1, h2, h3, h4⟩ | ⟨h1, h2, h3⟩
    · have := inv.free i hd w0 hi hst hw0
      rw [hw0] at hl; simp only [lenOf] at hl
      unfold WinFree at this; unfold WinDisj WinIn at *; simp only [outWin, hw0, lenOf]; omega
    · have := h3 hd.win hin
      unfold WinDisj; simp only [outWin]; omega
  · intro i hd b' hit hi hst hb'
    cases hb'
    have hin := inv.hIn i hd hi
    rcases hpl with ⟨w0, hw0, h1, h2, h3, h4⟩ | ⟨h1, h2, h3⟩
    · have := inv.free i hd w0 hi hst hw0
      rw [hw0] at hl; simp only [lenOf] at hl
      unfold WinFree at *; omega
    · have := h3 hd.win hin
      unfold WinFree; omega
  · intro _ b' hb'; cases hb'
    unfold WinFree; simp only [outWin]; omega

/-- Hand-out of the nil slice / empty string. -/
theorem BufInv.handNil {s : BufSt} (inv : BufInv s) (handles' : List Handle) (t : Nat) (isStr : Bool)
    (hupd : ∀ i hd', handles'[i]? = some hd' → (i ≠ t ∧ s.handles[i]? = some hd') ∨
      (i = t ∧ hd' = { win := nilWin, isStr := isStr, stale := false })) :
    BufInv { arrays := s.arrays, buf := s.buf, handles := handles' } := by
  apply BufInv.update inv s.buf handles' t _ hupd inv.bufIn
  · unfold WinIn; simp only [nilWin]; omega
  · intro _ i hd _ _ _; unfold WinDisj; simp only [nilWin]; omega
  · intro i hd b _ hi hst hb; exact inv.free i hd b hi hst hb
  · intro _ b _; unfold WinFree; simp only [nilWin]; omega

theorem step_bufferize {s : BufSt} (inv : BufInv s) (p : Bytes) (nc : Nat) :
    BufInv (bufStep tight s (.bufferize p) nc) := by
  have sp := appendWin_spec s.arrays s.buf p nc inv.bufIn
  generalize hA : appendWin s.arrays s.buf p nc = res at sp
  obtain ⟨arrays', b'⟩ := res
  simp only [bufStep, hA]
  cases b' with
  | some b =>
    exact BufInv.handOut inv p arrays' b sp _ s.handles.length false (fun i hd' h => getElem?_upd_append _ _ _ _ h)
  | none =>
    have h3 := (sp.resNone rfl).2.2
    exact BufInv.handNil inv _ s.handles.length false (fun i hd' h => getElem?_upd_append _ _ _ _ h)

theorem step_bufferizeStr {s : BufSt} (inv : BufInv s) (p : Bytes) (nc : Nat) :
    BufInv (bufStep tight s (.bufferizeStr p) nc) := by
  have sp := appendWin_spec s.arrays s.buf p nc inv.bufIn
  generalize hA : appendWin s.arrays s.buf p nc = res at sp
  obtain ⟨arrays', b'⟩ := res
  simp only [bufStep, hA]
  cases b' with
  | some b =>
    exact BufInv.handOut inv p arrays' b sp _ s.handles.length true (fun i hd' h => getElem?_upd_append _ _ _ _ h)
  | none =>
    exact BufInv.handNil inv _ s.handles.length true (fun i hd' h => getElem?_upd_append _ _ _ _ h)

/-- `ReleaseBytes` ignoring an empty slice changes nothing: the slice it ignores is the buffer as it was. -/
theorem keep_eq {arrays : List Bytes} {w : Option Win} {p : Bytes} {arrays' : List Bytes} {b : Win}
    (sp : AppendSpec arrays w p arrays' (some b)) :
    (if (b.len == 0) = true then w else some b) = some b := by
  by_cases h0 : b.len = 0
  · rcases sp.place b rfl with ⟨w0, hw0, h1, h2, h3, h4⟩ | ⟨h1, h2, h3⟩
    · have hl := sp.resLen b rfl
      rw [hw0] at hl; simp only [lenOf] at hl
      have : w0 = b := by
        cases w0; cases b; simp only [Win.mk.injEq] at *; omega
      simp only [h0, beq_self_eq_true, if_true, hw0, this]
    · omega
  · have : (b.len == 0) = false := by simpa using h0
    simp only [this, Bool.false_eq_true, if_false]

theorem step_assignBuf {s : BufSt} (inv : BufInv s) (r : Bytes) (isStr : Bool) (nc : Nat) :
    BufInv (bufStep tight s (.assignBuf r isStr) nc) := by
  have sp := appendWin_spec s.arrays s.buf r nc inv.bufIn
  generalize hA : appendWin s.arrays s.buf r nc = res at sp
  obtain ⟨arrays', b'⟩ := res
  simp only [bufStep, hA]
  cases b' with
  | some b =>
    simp only [keep_eq sp]
    exact BufInv.handOut inv r arrays' b sp _ s.handles.length isStr
      (fun i hd' h => by
        have := getElem?_upd_append _ _ _ _ h
        rw [handOut_tight] at this; exact this)
  | none =>
    exact BufInv.handNil inv _ s.handles.length isStr (fun i hd' h => getElem?_upd_append _ _ _ _ h)

theorem step_assignBufTo {s : BufSt} (inv : BufInv s) (h : Nat) (r : Bytes) (nc : Nat) :
    BufInv (bufStep tight s (.assignBufTo h r) nc) := by
  have sp := appendWin_spec s.arrays s.buf r nc inv.bufIn
  generalize hA : appendWin s.arrays s.buf r nc = res at sp
  obtain ⟨arrays', b'⟩ := res
  simp only [bufStep]
  cases hh : s.handles[h]? with
  | none => exact inv
  | some hd =>
    simp only [hA]
    cases b' with
    | some b =>
      simp only [keep_eq sp]
      exact BufInv.handOut inv r arrays' b sp _ h hd.isStr
        (fun i hd' h => by
          have := getElem?_upd_set _ _ _ _ _ h
          rw [handOut_tight] at this; exact this)
    | none =>
      exact BufInv.handNil inv _ h hd.isStr (fun i hd' h => getElem?_upd_set _ _ _ _ _ h)

theorem step_reset {s : BufSt} (inv : BufInv s) (nc : Nat) : BufInv (bufStep tight s .reset nc) := by
  simp only [bufStep]
  have hm : ∀ (i : Nat) (hd : Handle), (s.handles.map fun (h : Handle) => { h with stale := true })[i]? = some hd →
      ∃ hd0 : Handle, s.handles[i]? = some hd0 ∧ hd = { hd0 with stale := true } := by
    intro i hd h
    rw [List.getElem?_map] at h
    cases h0 : s.handles[i]? with
    | none => rw [h0] at h; cases h
    | some hd0 => rw [h0] at h; exact ⟨hd0, rfl, (Option.some.inj h).symm⟩
  refine { bufIn := ?_, hIn := ?_, disj := ?_, free := ?_ }
  · intro b hb
    cases h0 : s.buf with
    | none => rw [h0] at hb; cases hb
    | some b0 =>
      rw [h0] at hb; cases hb
      have := inv.bufIn b0 h0
      unfold WinIn at *; simp only []; omega
  · intro i hd h
    obtain ⟨hd0, h0, he⟩ := hm i hd h
    subst he; exact inv.hIn i hd0 h0
  · intro i j hi hj _ h1 _ s1 _
    obtain ⟨hd0, h0, he⟩ := hm i hi h1
    subst he; cases s1
  · intro i hd b h st _
    obtain ⟨hd0, h0, he⟩ := hm i hd h
    subst he; cases st

theorem step_overwrite {s : BufSt} (inv : BufInv s) (h i : Nat) (byte : UInt8) (nc : Nat) :
    BufInv (bufStep tight s (.overwrite h i byte) nc) := by
  simp only [bufStep]
  cases hh : s.handles[h]? with
  | none => exact inv
  | some hd =>
    simp only []
    by_cases hc : (hd.isStr || decide (i ≥ hd.win.len)) = true
    · simp only [hc, if_true]; exact inv
    · simp only [hc, if_false]
      apply inv.mono_arrays
      intro k
      have hin := inv.hIn h hd hh
      have hi : i < hd.win.len := by
        simp only [Bool.or_eq_true, decide_eq_true_eq, not_or] at hc; omega
      rw [arrLen_setArr]
      · exact Nat.le_refl _
      · apply length_writeAt
        unfold WinIn at hin; simp only [List.length_singleton]; unfold arrLen at hin; omega

/-- A client append through handle `h`, starting from `w0` = the handle's window or its `[:0]` reslice. -/
theorem BufInv.clientAppend {s : BufSt} (inv : BufInv s) (h : Nat) (hd : Handle) (hh : s.handles[h]? = some hd)
    (w0 : Win) (ha : w0.arr = hd.win.arr) (ho : w0.off = hd.win.off) (hc : w0.cap = hd.win.cap)
    (q : Bytes) (arrays' : List Bytes) (b : Win) (sp : AppendSpec s.arrays (some w0) q arrays' (some b))
    (nh : Handle) (hnw : nh.win = b) (hns : nh.stale = hd.stale) :
    BufInv { arrays := arrays', buf := s.buf, handles := s.handles.set h nh } := by
  subst hnw
  have inv' := inv.mono_arrays arrays' sp.mono
  have hpl := sp.place _ rfl
  apply BufInv.update inv' s.buf _ h _ (fun i hd' hi => getElem?_upd_set _ _ _ _ _ hi) inv'.bufIn (sp.resIn _ rfl)
  · intro hst i hdi hit hi hsti
    rw [hns] at hst
    rcases hpl with ⟨w1, hw1, h1, h2, h3, h4⟩ | ⟨h1, h2, h3⟩
    · cases hw1
      have := inv.disj i h hdi hd hit hi hh hsti hst
      unfold WinDisj at *; omega
    · have := h3 hdi.win (inv.hIn i hdi hi)
      unfold WinDisj; omega
  · intro i hdi bb _ hi hsti hbb; exact inv.free i hdi bb hi hsti hbb
  · intro hst bb hbb
    rw [hns] at hst
    rcases hpl with ⟨w1, hw1, h1, h2, h3, h4⟩ | ⟨h1, h2, h3⟩
    · cases hw1
      have := inv.free h hd bb hh hst hbb
      unfold WinFree at *; omega
    · have := h3 bb (inv.bufIn bb hbb)
      unfold WinFree; omega

theorem step_appendTo {s : BufSt} (inv : BufInv s) (h : Nat) (q : Bytes) (nc : Nat) :
    BufInv (bufStep tight s (.appendTo h q) nc) := by
  simp only [bufStep]
  cases hh : s.handles[h]? with
  | none => exact inv
  | some hd =>
    simp only []
    by_cases hc : hd.isStr = true
    · simp only [hc, if_true]; exact inv
    · simp only [hc, if_false]
      have sp := appendWin_spec s.arrays (some hd.win) q nc (fun w0 hw => by cases hw; exact inv.hIn h hd hh)
      generalize hA : appendWin s.arrays (some hd.win) q nc = res at sp
      obtain ⟨arrays', b'⟩ := res
      cases b' with
      | some b =>
        simp only [Bool.false_eq_true, if_false]
        exact inv.clientAppend h hd hh hd.win rfl rfl rfl q arrays' b sp _ rfl rfl
      | none => simp only [Bool.false_eq_true, if_false]; exact inv

theorem step_setNoBuf {s : BufSt} (inv : BufInv s) (h : Nat) (r : Bytes) (nc : Nat) :
    BufInv (bufStep tight s (.setNoBuf h r) nc) := by
  simp only [bufStep]
  cases hh : s.handles[h]? with
  | none => exact inv
  | some hd =>
    simp only []
    by_cases hc : hd.isStr = true
    · simp only [hc, if_true]; exact inv
    · simp only [hc, if_false]
      have sp := appendWin_spec s.arrays (some { hd.win with len := 0 }) r nc (fun w0 hw => by
        cases hw; have := inv.hIn h hd hh; unfold WinIn at *; simp only []; omega)
      generalize hA : appendWin s.arrays (some { hd.win with len := 0 }) r nc = res at sp
      obtain ⟨arrays', b'⟩ := res
      cases b' with
      | some b =>
        simp only [Bool.false_eq_true, if_false]
        exact inv.clientAppend h hd hh { hd.win with len := 0 } rfl rfl rfl r arrays' b sp _ rfl rfl
      | none => simp only [Bool.false_eq_true, if_false]; exact inv

/-- Target 1, one step: every operation, whatever capacity the runtime picks when it has to grow. -/
theorem bufInv_step' {s : BufSt} (inv : BufInv s) (op : BufOp) (nc : Nat) : BufInv (bufStep tight s op nc) := by
  cases op with
  | bufferize p => exact step_bufferize inv p nc
  | bufferizeStr p => exact step_bufferizeStr inv p nc
  | assignBuf r isStr => exact step_assignBuf inv r isStr nc
  | assignBufTo h r => exact step_assignBufTo inv h r nc
  | reset => exact step_reset inv nc
  | overwrite h i b => exact step_overwrite inv h i b nc
  | appendTo h q => exact step_appendTo inv h q nc
  | setNoBuf h r => exact step_setNoBuf inv h r nc

theorem bufInv_init' (c : Nat) : BufInv (initBuf c) := by
  unfold initBuf
  by_cases hc : (c == 0) = true
  · simp only [hc, if_true]
    exact { bufIn := fun b h => (by cases h), hIn := fun i hd h => (by simp at h),
            disj := fun i j hi hj _ h => (by simp at h), free := fun i hd b h => (by simp at h) }
  · simp only [hc, if_false]
    refine { bufIn := ?_, hIn := fun i hd h => (by simp at h),
             disj := fun i j hi hj _ h => (by simp at h), free := fun i hd b h => (by simp at h) }
    intro b h; cases h
    unfold WinIn arrLen; simp

/-! ### Stability: one step leaves every other live handle alone -/

/-- An append to the buffer is invisible through every live handle. -/
theorem frame_buf {s : BufSt} (inv : BufInv s) (p : Bytes) (nc : Nat) (j : Nat) (hd : Handle)
    (hj : s.handles[j]? = some hd) (hst : hd.stale = false) :
    readWin (appendWin s.arrays s.buf p nc).1 hd.win = readWin s.arrays hd.win := by
  apply (appendWin_spec s.arrays s.buf p nc inv.bufIn).frame _ (inv.hIn j hd hj)
  intro w0 hw0
  have := inv.free j hd w0 hj hst hw0
  have hin := inv.hIn j hd hj
  unfold WinFree at this; unfold WinIn at hin; omega

/-- A client append through live handle `h` (from its window or its `[:0]` reslice) is invisible through
every other live handle. -/
theorem frame_client {s : BufSt} (inv : BufInv s) (h : Nat) (hh : Handle) (hhh : s.handles[h]? = some hh)
    (hhst : hh.stale = false) (w0 : Win) (ha : w0.arr = hh.win.arr) (ho : w0.off = hh.win.off)
    (hc : w0.cap = hh.win.cap) (hl : w0.len ≤ hh.win.len) (q : Bytes) (nc : Nat) (j : Nat) (hd : Handle)
    (hj : s.handles[j]? = some hd) (hst : hd.stale = false) (hne : j ≠ h) :
    readWin (appendWin s.arrays (some w0) q nc).1 hd.win = readWin s.arrays hd.win := by
  have hin0 := inv.hIn h hh hhh
  apply (appendWin_spec s.arrays (some w0) q nc (fun w1 hw => by
    cases hw; unfold WinIn at *; rw [ha]; omega)).frame _ (inv.hIn j hd hj)
  intro w1 hw1; cases hw1
  have := inv.disj j h hd hh hne hj hhh hst hhst
  have hin := inv.hIn j hd hj
  unfold WinDisj at this; unfold WinIn at hin; omega

/-- Target 2, one step. In tight mode, under the invariant, an operation that is not aimed at handle `j`
leaves the live handle `j` exactly as it was — same window, same bytes. (`opLive`: a client does not write
through a value handed out before the last Reset.) -/
theorem stable_step {s : BufSt} (inv : BufInv s) (op : BufOp) (nc : Nat) (hlive : opLive s op = true)
    (j : Nat) (hd : Handle) (hj : s.handles[j]? = some hd) (hst : hd.stale = false)
    (hne : op.target ≠ some j) :
    (bufStep tight s op nc).handles[j]? = some (if op.isReset then { hd with stale := true } else hd) ∧
    readWin (bufStep tight s op nc).arrays hd.win = readWin s.arrays hd.win := by
  have hjl : j < s.handles.length := by
    rcases Nat.lt_or_ge j s.handles.length with h | h
    · exact h
    · rw [List.getElem?_eq_none h] at hj; cases hj
  cases op with
  | bufferize p =>
    have hf := frame_buf inv p nc j hd hj hst
    generalize hA : appendWin s.arrays s.buf p nc = res at hf
    obtain ⟨arrays', b'⟩ := res
    simp only [bufStep, hA, BufOp.isReset]
    cases b' <;> simp only [List.getElem?_append_left hjl, hj, Bool.false_eq_true, if_false, true_and] <;> first | exact hf | rfl
  | bufferizeStr p =>
    have hf := frame_buf inv p nc j hd hj hst
    generalize hA : appendWin s.arrays s.buf p nc = res at hf
    obtain ⟨arrays', b'⟩ := res
    simp only [bufStep, hA, BufOp.isReset]
    cases b' <;> simp only [List.getElem?_append_left hjl, hj, Bool.false_eq_true, if_false, true_and] <;> first | exact hf | rfl
  | assignBuf r isStr =>
    have hf := frame_buf inv r nc j hd hj hst
    generalize hA : appendWin s.arrays s.buf r nc = res at hf
    obtain ⟨arrays', b'⟩ := res
    simp only [bufStep, hA, BufOp.isReset]
    cases b' <;> simp only [List.getElem?_append_left hjl, hj, Bool.false_eq_true, if_false, true_and] <;> first | exact hf | rfl
  | assignBufTo h r =>
    have hjh : h ≠ j := by intro e; apply hne; simp only [BufOp.target, e]
    have hf := frame_buf inv r nc j hd hj hst
    generalize hA : appendWin s.arrays s.buf r nc = res at hf
    obtain ⟨arrays', b'⟩ := res
    simp only [bufStep, BufOp.isReset]
    cases hh : s.handles[h]? with
    | none => simp only [hj, Bool.false_eq_true, if_false, true_and]
    | some hd0 =>
      simp only [hA]
      cases b' <;> simp only [List.getElem?_set_ne hjh, hj, Bool.false_eq_true, if_false, true_and] <;> first | exact hf | rfl
  | reset =>
    simp only [bufStep, BufOp.isReset, List.getElem?_map, hj, Option.map_some, if_true, and_self]
  | overwrite h i byte =>
    have hjh : j ≠ h := by intro e; apply hne; simp only [BufOp.target, e]
    simp only [bufStep, BufOp.isReset]
    cases hh : s.handles[h]? with
    | none => simp only [hj, Bool.false_eq_true, if_false, true_and]
    | some hd0 =>
      simp only []
      by_cases hc : (hd0.isStr || decide (i ≥ hd0.win.len)) = true
      · simp only [hc, if_true, hj, Bool.false_eq_true, if_false, true_and]
      · simp only [hc, if_false, hj, Bool.false_eq_true, true_and]
        have hi : i < hd0.win.len := by
          simp only [Bool.or_eq_true, decide_eq_true_eq, not_or] at hc; omega
        have h0st : hd0.stale = false := by
          simp only [opLive, hh] at hlive; simpa using hlive
        have hin0 := inv.hIn h hd0 hh
        have hin := inv.hIn j hd hj
        have := inv.disj j h hd hd0 hjh hj hh hst h0st
        apply readWin_write
        · unfold WinIn at hin0; simp only [List.length_singleton]; omega
        · unfold WinDisj at this; unfold WinIn at hin hin0; simp only [List.length_singleton]; omega
  | appendTo h q =>
    have hjh : j ≠ h := by intro e; apply hne; simp only [BufOp.target, e]
    simp only [bufStep, BufOp.isReset]
    cases hh : s.handles[h]? with
    | none => simp only [hj, Bool.false_eq_true, if_false, true_and]
    | some hd0 =>
      simp only []
      by_cases hc : hd0.isStr = true
      · simp only [hc, if_true, hj, Bool.false_eq_true, if_false, true_and]
      · have h0st : hd0.stale = false := by
          simp only [opLive, hh] at hlive; simpa using hlive
        have hf := frame_client inv h hd0 hh h0st hd0.win rfl rfl rfl (Nat.le_refl _) q nc j hd hj hst hjh
        generalize hA : appendWin s.arrays (some hd0.win) q nc = res at hf
        obtain ⟨arrays', b'⟩ := res
        simp only [hc, if_false, Bool.false_eq_true]
        cases b' <;> simp only [List.getElem?_set_ne hjh.symm, hj, true_and] <;> first | exact hf | rfl
  | setNoBuf h r =>
    have hjh : j ≠ h := by intro e; apply hne; simp only [BufOp.target, e]
    simp only [bufStep, BufOp.isReset]
    cases hh : s.handles[h]? with
    | none => simp only [hj, Bool.false_eq_true, if_false, true_and]
    | some hd0 =>
      simp only []
      by_cases hc : hd0.isStr = true
      · simp only [hc, if_true, hj, Bool.false_eq_true, if_false, true_and]
      · have h0st : hd0.stale = false := by
          simp only [opLive, hh] at hlive; simpa using hlive
        have hf := frame_client inv h hd0 hh h0st { hd0.win with len := 0 } rfl rfl rfl (Nat.zero_le _) r nc j hd hj hst hjh
        generalize hA : appendWin s.arrays (some { hd0.win with len := 0 }) r nc = res at hf
        obtain ⟨arrays', b'⟩ := res
        simp only [hc, if_false, Bool.false_eq_true]
        cases b' <;> simp only [List.getElem?_set_ne hjh.symm, hj, true_and] <;> first | exact hf | rfl

/-! ### Histories -/

theorem bufRun_eq_foldl (cfg : BufCfg) (s : BufSt) (steps : List (BufOp × Nat)) :
    bufRun cfg s steps = steps.foldl (fun s st => bufStep cfg s st.1 st.2) s := by
  induction steps generalizing s with
  | nil => rfl
  | cons st rest ih => obtain ⟨op, nc⟩ := st; simp only [bufRun, List.foldl_cons]; exact ih _

theorem bufRun_append (cfg : BufCfg) (s : BufSt) (xs ys : List (BufOp × Nat)) :
    bufRun cfg s (xs ++ ys) = bufRun cfg (bufRun cfg s xs) ys := by
  induction xs generalizing s with
  | nil => rfl
  | cons st rest ih => obtain ⟨op, nc⟩ := st; simp only [bufRun, List.cons_append]; exact ih _

/-- Target 1 for sequences. -/
theorem bufInv_run {s : BufSt} (inv : BufInv s) (steps : List (BufOp × Nat)) : BufInv (bufRun tight s steps) := by
  induction steps generalizing s with
  | nil => exact inv
  | cons st rest ih =>
    obtain ⟨op, nc⟩ := st
    exact ih (bufInv_step' inv op nc)

/-- Target 2 for sequences: as long as the buffer is not reset and nothing is aimed at handle `j`, it keeps
its window and its bytes, whatever else happens to the buffer and to the other handles. -/
theorem stable_run {s : BufSt} (inv : BufInv s) (steps : List (BufOp × Nat))
    (hlive : runLive tight s steps = true)
    (j : Nat) (hd : Handle) (hj : s.handles[j]? = some hd) (hst : hd.stale = false)
    (hno : ∀ st ∈ steps, st.1.isReset = false ∧ st.1.target ≠ some j) :
    (bufRun tight s steps).handles[j]? = some hd ∧
    readWin (bufRun tight s steps).arrays hd.win = readWin s.arrays hd.win := by
  induction steps generalizing s with
  | nil => exact ⟨hj, rfl⟩
  | cons st rest ih =>
    obtain ⟨op, nc⟩ := st
    simp only [runLive, Bool.and_eq_true] at hlive
    have ⟨hr, ht⟩ := hno (op, nc) (List.mem_cons_self ..)
    have ⟨h1, h2⟩ := stable_step inv op nc hlive.1 j hd hj hst ht
    simp only [hr, Bool.false_eq_true, if_false] at h1
    have ⟨h3, h4⟩ := ih (bufInv_step' inv op nc) hlive.2 h1 (fun st hm => hno st (List.mem_cons_of_mem _ hm))
    exact ⟨h3, h4.trans h2⟩

theorem obs_some {s : BufSt} {j : Nat} {a : Nat × Bytes} (h : (bufObs s)[j]? = some (some a)) :
    ∃ hd : Handle, s.handles[j]? = some hd ∧ hd.stale = false ∧ a = (hd.win.cap, readWin s.arrays hd.win) := by
  unfold bufObs at h
  rw [List.getElem?_map] at h
  cases hh : s.handles[j]? with
  | none => rw [hh] at h; cases h
  | some hd =>
    rw [hh] at h
    simp only [Option.map_some, Option.some.injEq] at h
    cases hs : hd.stale with
    | true => rw [hs] at h; simp at h
    | false =>
      rw [hs] at h
      simp only [Bool.false_eq_true, if_false, Option.some.injEq] at h
      exact ⟨hd, rfl, hs, h.symm⟩

/-- The acceptance check finds nothing to object to in one step of the tight model. -/
theorem step_not_bad {s : BufSt} (inv : BufInv s) (op : BufOp) (nc : Nat) (hl : opLive s op = true) (j : Nat) :
    (some j != op.target && obsChanged (bufObs s) (bufObs (bufStep tight s op nc)) j) = false := by
  by_cases ht : op.target = some j
  · simp [ht]
  · have hne : (some j != op.target) = true := by
      rw [bne_iff_ne]; exact fun e => ht e.symm
    rw [hne, Bool.true_and]
    unfold obsChanged
    split
    · rename_i a b hp hc
      obtain ⟨hd, hj, hst, ha⟩ := obs_some hp
      obtain ⟨hd', hj', hst', hb⟩ := obs_some hc
      have ⟨h1, h2⟩ := stable_step inv op nc hl j hd hj hst ht
      rw [h1] at hj'
      cases hr : op.isReset with
      | true =>
        rw [hr] at hj'; simp only [if_true, Option.some.injEq] at hj'
        rw [← hj'] at hst'; cases hst'
      | false =>
        rw [hr] at hj'; simp only [Bool.false_eq_true, if_false, Option.some.injEq] at hj'
        subst hj'
        rw [ha, hb]; simp only [h2, beq_self_eq_true, Bool.not_true]
    · rfl

theorem go_none {s : BufSt} (inv : BufInv s) (steps : List (BufOp × Nat)) (hlive : runLive tight s steps = true)
    (i : Nat) :
    bufHistoryViolation.go i (bufObs s) (steps.map (·.1)) (bufRunObs tight s steps) = none := by
  induction steps generalizing s i with
  | nil => simp only [List.map, bufRunObs, bufHistoryViolation.go]
  | cons st rest ih =>
    obtain ⟨op, nc⟩ := st
    simp only [runLive, Bool.and_eq_true] at hlive
    have hbad : ((List.range (bufObs s).length).any fun j =>
        some j != op.target && obsChanged (bufObs s) (bufObs (bufStep tight s op nc)) j) = false := by
      rw [List.any_eq_false]
      intro j _
      rw [step_not_bad inv op nc hlive.1 j]; exact Bool.false_ne_true
    simp only [List.map, bufRunObs, bufHistoryViolation.go, hbad, Bool.false_eq_true, if_false]
    exact ih (bufInv_step' inv op nc) hlive.2 (i + 1)

/-! ### Refinement: the tight buffer implements "every handed-out value is a value of its own" -/

/-- The memory state shows every live value exactly as the reference semantics (`absStep`) has it. -/
def Refines (s : BufSt) (a : List AVal) : Prop :=
  a.length = s.handles.length ∧
  ∀ (j : Nat) (hd : Handle), s.handles[j]? = some hd →
    ∃ v : AVal, a[j]? = some v ∧ v.isStr = hd.isStr ∧ v.stale = hd.stale ∧
      (hd.stale = false → readWin s.arrays hd.win = v.content)

theorem refines_upd {s s' : BufSt} {a a' : List AVal} (R : Refines s a) (t : Nat) (nh : Handle) (nv : AVal)
    (hlen : a'.length = s'.handles.length)
    (hupd : ∀ j hd', s'.handles[j]? = some hd' → (j ≠ t ∧ s.handles[j]? = some hd') ∨ (j = t ∧ hd' = nh))
    (haOld : ∀ j, j ≠ t → a'[j]? = a[j]?)
    (haNew : t < s'.handles.length → a'[t]? = some nv)
    (hframe : ∀ j hd, j ≠ t → s.handles[j]? = some hd → hd.stale = false →
      readWin s'.arrays hd.win = readWin s.arrays hd.win)
    (hflags : nv.isStr = nh.isStr ∧ nv.stale = nh.stale)
    (hcontent : nh.stale = false → readWin s'.arrays nh.win = nv.content) : Refines s' a' := by
  refine ⟨hlen, ?_⟩
  intro j hd' hj
  rcases hupd j hd' hj with ⟨hjt, hj0⟩ | ⟨hjt, he⟩
  · obtain ⟨v, hv, h1, h2, h3⟩ := R.2 j hd' hj0
    refine ⟨v, by rw [haOld j hjt]; exact hv, h1, h2, ?_⟩
    intro hst; rw [hframe j hd' hjt hj0 hst]; exact h3 hst
  · subst he; subst hjt
    have hlt : j < s'.handles.length := by
      rcases Nat.lt_or_ge j s'.handles.length with h | h
      · exact h
      · rw [List.getElem?_eq_none h] at hj; cases hj
    exact ⟨nv, haNew hlt, hflags.1, hflags.2, hcontent⟩

theorem getElem?_append_one_ne {α : Type} (l : List α) (x : α) (j : Nat) (h : j ≠ l.length) :
    (l ++ [x])[j]? = l[j]? := by
  by_cases hj : j < l.length
  · exact List.getElem?_append_left hj
  · rw [List.getElem?_eq_none (by simp only [List.length_append, List.length_singleton]; omega),
        List.getElem?_eq_none (by omega)]

theorem getElem?_append_one_self {α : Type} (l : List α) (x : α) : (l ++ [x])[l.length]? = some x := by
  rw [List.getElem?_append_right (Nat.le_refl _)]; simp

/-- Shared by Bufferize / BufferizeString / AssignBuf (fresh or re-used destination): the value handed
out is a copy of the input, and nothing else moves. -/
theorem refines_handOut {s : BufSt} {a : List AVal} (inv : BufInv s) (R : Refines s a) (p : Bytes) (nc : Nat)
    (isStr : Bool) (t : Nat) (arrays' : List Bytes) (b' : Option Win)
    (hA : appendWin s.arrays s.buf p nc = (arrays', b'))
    (arrs : List Bytes) (harrs : arrs = arrays') (buf' : Option Win) (handles' : List Handle) (a' : List AVal)
    (w : Win) (hw : w = match b' with | some b => outWin b (lenOf s.buf) p.length | none => nilWin)
    (hlen : a'.length = handles'.length)
    (hupd : ∀ j hd', handles'[j]? = some hd' → (j ≠ t ∧ s.handles[j]? = some hd') ∨
      (j = t ∧ hd' = { win := w, isStr := isStr, stale := false }))
    (haOld : ∀ j, j ≠ t → a'[j]? = a[j]?)
    (haNew : t < handles'.length → a'[t]? = some { content := p, isStr := isStr, stale := false }) :
    Refines { arrays := arrs, buf := buf', handles := handles' } a' := by
  subst harrs
  have sp := appendWin_spec s.arrays s.buf p nc inv.bufIn
  rw [hA] at sp
  apply refines_upd R t _ _ hlen hupd haOld haNew
  · intro j hd _ hj hst
    have := frame_buf inv p nc j hd hj hst
    rw [hA] at this; exact this
  · exact ⟨rfl, rfl⟩
  · intro _
    subst hw
    cases b' with
    | some b =>
      have := sp.tail b rfl
      simp only [readWin, outWin]; exact this
    | none =>
      have := (sp.resNone rfl).2.1
      subst this
      simp [readWin, nilWin]

theorem refines_handOut_append {s : BufSt} {a : List AVal} (inv : BufInv s) (R : Refines s a) (p : Bytes) (nc : Nat)
    (isStr : Bool) (arrays' : List Bytes) (b' : Option Win)
    (hA : appendWin s.arrays s.buf p nc = (arrays', b'))
    (arrs : List Bytes) (harrs : arrs = arrays') (buf' : Option Win)
    (w : Win) (hw : w = match b' with | some b => outWin b (lenOf s.buf) p.length | none => nilWin) :
    Refines { arrays := arrs, buf := buf', handles := s.handles ++ [{ win := w, isStr := isStr, stale := false }] }
      (a ++ [{ content := p, isStr := isStr, stale := false }]) :=
  refines_handOut inv R p nc isStr s.handles.length arrays' b' hA arrs harrs buf' _ _ w hw
    (by rw [List.length_append, List.length_append, R.1]; rfl)
    (fun j hd' h => getElem?_upd_append _ _ _ _ h)
    (fun j hj => getElem?_append_one_ne _ _ _ (by rw [R.1]; exact hj))
    (fun _ => by rw [← R.1]; exact getElem?_append_one_self _ _)

theorem refines_handOut_set {s : BufSt} {a : List AVal} (inv : BufInv s) (R : Refines s a) (p : Bytes) (nc : Nat)
    (isStr : Bool) (h : Nat) (arrays' : List Bytes) (b' : Option Win)
    (hA : appendWin s.arrays s.buf p nc = (arrays', b'))
    (arrs : List Bytes) (harrs : arrs = arrays') (buf' : Option Win)
    (w : Win) (hw : w = match b' with | some b => outWin b (lenOf s.buf) p.length | none => nilWin) :
    Refines { arrays := arrs, buf := buf', handles := s.handles.set h { win := w, isStr := isStr, stale := false } }
      (a.set h { content := p, isStr := isStr, stale := false }) :=
  refines_handOut inv R p nc isStr h arrays' b' hA arrs harrs buf' _ _ w hw
    (by rw [List.length_set, List.length_set, R.1])
    (fun j hd' hj => getElem?_upd_set _ _ _ _ _ hj)
    (fun j hj => List.getElem?_set_ne (by omega))
    (fun hl => by rw [List.length_set, ← R.1] at hl; exact List.getElem?_set_self hl)

theorem readWin_whole {arrays arrays' : List Bytes} {w : Option Win} {p : Bytes} {b : Win}
    (sp : AppendSpec arrays w p arrays' (some b)) : readWin arrays' b = contentOf arrays w ++ p := by
  have h1 := sp.head b rfl
  have h2 := sp.tail b rfl
  have h3 := sp.resLen b rfl
  unfold readWin
  rw [h3, List.take_add, h1, List.drop_drop, h2]

theorem writeAt_one (a : Bytes) (q : Nat) (x : UInt8) (h : q < a.length) : writeAt a q [x] = a.set q x := by
  unfold writeAt
  rw [List.set_eq_take_append_cons_drop]
  simp only [h, if_true, List.length_singleton, List.append_assoc, List.singleton_append]

theorem readWin_overwrite (arrays : List Bytes) (w : Win) (i : Nat) (x : UInt8) (hw : WinIn arrays w) (hi : i < w.len) :
    readWin (setArr arrays w.arr (writeAt (arrays.getD w.arr []) (w.off + i) [x])) w = (readWin arrays w).set i x := by
  have hlt : w.off + i < (arrays.getD w.arr []).length := by unfold WinIn arrLen at hw; omega
  have hk : w.arr < arrays.length := by
    rcases Nat.lt_or_ge w.arr arrays.length with h | h
    · exact h
    · have := arrLen_oob arrays w.arr h; unfold arrLen at this; omega
  unfold readWin
  rw [getD_setArr_self _ _ _ hk, writeAt_one _ _ _ hlt, ← List.set_drop, List.take_set]

/-- Shared by the client operations append / unbuffered Set: handle `h` gets the window `b`. -/
theorem refines_client {s : BufSt} {a : List AVal} (inv : BufInv s) (R : Refines s a) (h : Nat) (hd : Handle) (v : AVal)
    (hh : s.handles[h]? = some hd) (hv : a[h]? = some v) (hst : hd.stale = false)
    (w0 : Win) (ha : w0.arr = hd.win.arr) (ho : w0.off = hd.win.off) (hc : w0.cap = hd.win.cap) (hl : w0.len ≤ hd.win.len)
    (q : Bytes) (nc : Nat) (arrays' : List Bytes) (b : Win) (hA : appendWin s.arrays (some w0) q nc = (arrays', some b))
    (nh : Handle) (nv : AVal) (hnw : nh.win = b) (hflags : nv.isStr = nh.isStr ∧ nv.stale = nh.stale)
    (hcontent : nv.content = readWin s.arrays w0 ++ q) :
    Refines { arrays := arrays', buf := s.buf, handles := s.handles.set h nh } (a.set h nv) := by
  have hin0 := inv.hIn h hd hh
  have sp := appendWin_spec s.arrays (some w0) q nc (fun w1 hw => by
    cases hw; unfold WinIn at *; rw [ha]; omega)
  rw [hA] at sp
  apply refines_upd R h nh nv
  · simp only [List.length_set]; exact R.1
  · exact fun j hd' hj => getElem?_upd_set _ _ _ _ _ hj
  · exact fun j hj => List.getElem?_set_ne (by omega)
  · intro hlt
    simp only [List.length_set] at hlt
    exact List.getElem?_set_self (by rw [R.1]; exact hlt)
  · intro j hdj hjh hj hstj
    have := frame_client inv h hd hh hst w0 ha ho hc hl q nc j hdj hj hstj hjh
    rw [hA] at this; exact this
  · exact hflags
  · intro _
    rw [hnw, hcontent]
    exact readWin_whole sp

/-- **Refinement step.** Under the invariant, one step of the tight buffer is one step of the reference
semantics, for every operation (client operations through live values) and every growth choice. -/
theorem refines_step {s : BufSt} {a : List AVal} (inv : BufInv s) (R : Refines s a) (op : BufOp) (nc : Nat)
    (hlive : opLive s op = true) : Refines (bufStep tight s op nc) (absStep a op) := by
  have hal := R.1
  cases op with
  | bufferize p =>
    generalize hA : appendWin s.arrays s.buf p nc = res
    obtain ⟨arrays', b'⟩ := res
    have hres := (appendWin_spec s.arrays s.buf p nc inv.bufIn).resNone
    rw [hA] at hres
    simp only [bufStep, hA, absStep]
    cases b' with
    | some b => exact refines_handOut_append inv R p nc false arrays' (some b) hA _ rfl _ _ rfl
    | none => exact refines_handOut_append inv R p nc false arrays' none hA _ (hres rfl).2.2.symm _ _ rfl
  | bufferizeStr p =>
    generalize hA : appendWin s.arrays s.buf p nc = res
    obtain ⟨arrays', b'⟩ := res
    have hres := (appendWin_spec s.arrays s.buf p nc inv.bufIn).resNone
    rw [hA] at hres
    simp only [bufStep, hA, absStep]
    cases b' with
    | some b => exact refines_handOut_append inv R p nc true arrays' (some b) hA _ rfl _ _ rfl
    | none => exact refines_handOut_append inv R p nc true arrays' none hA _ (hres rfl).2.2.symm _ _ rfl
  | assignBuf r isStr =>
    generalize hA : appendWin s.arrays s.buf r nc = res
    obtain ⟨arrays', b'⟩ := res
    have hres := (appendWin_spec s.arrays s.buf r nc inv.bufIn).resNone
    rw [hA] at hres
    simp only [bufStep, hA, absStep]
    cases b' with
    | some b =>
      simp only []
      rw [handOut_tight]
      exact refines_handOut_append inv R r nc isStr arrays' (some b) hA _ rfl _ _ rfl
    | none => exact refines_handOut_append inv R r nc isStr arrays' none hA _ (hres rfl).2.2.symm _ _ rfl
  | assignBufTo h r =>
    generalize hA : appendWin s.arrays s.buf r nc = res
    obtain ⟨arrays', b'⟩ := res
    have hres := (appendWin_spec s.arrays s.buf r nc inv.bufIn).resNone
    rw [hA] at hres
    simp only [bufStep, absStep]
    cases hh : s.handles[h]? with
    | none =>
      have : a[h]? = none := by
        rw [List.getElem?_eq_none_iff] at hh ⊢; omega
      simp only [this]; exact R
    | some hd =>
      obtain ⟨v, hv, hvs, _, _⟩ := R.2 h hd hh
      simp only [hA, hv, hvs]
      cases b' with
      | some b =>
        simp only []
        rw [handOut_tight]
        exact refines_handOut_set inv R r nc hd.isStr h arrays' (some b) hA _ rfl _ _ rfl
      | none => exact refines_handOut_set inv R r nc hd.isStr h arrays' none hA _ (hres rfl).2.2.symm _ _ rfl
  | reset =>
    simp only [bufStep, absStep]
    refine ⟨by rw [List.length_map, List.length_map, hal], ?_⟩
    intro j hd hj
    rw [List.getElem?_map] at hj
    cases h0 : s.handles[j]? with
    | none => rw [h0] at hj; cases hj
    | some hd0 =>
      rw [h0] at hj; cases hj
      obtain ⟨v, hv, h1, h2, h3⟩ := R.2 j hd0 h0
      exact ⟨{ v with stale := true }, by rw [List.getElem?_map, hv]; rfl, h1, rfl, fun h => by cases h⟩
  | overwrite h i byte =>
    simp only [bufStep, absStep]
    cases hh : s.handles[h]? with
    | none =>
      have : a[h]? = none := by
        rw [List.getElem?_eq_none_iff] at hh ⊢; omega
      simp only [this]; exact R
    | some hd =>
      obtain ⟨v, hv, hvs, hvst, hvc⟩ := R.2 h hd hh
      have hst : hd.stale = false := by
        simp only [opLive, hh] at hlive; simpa using hlive
      have hin := inv.hIn h hd hh
      have hlen : v.content.length = hd.win.len := by rw [← hvc hst]; exact length_readWin _ _ hin
      simp only [hv, hvs, hlen]
      cases hc : (hd.isStr || decide (i ≥ hd.win.len)) with
      | true => simp only [if_true]; exact R
      | false =>
        simp only [Bool.false_eq_true, if_false]
        have hi : i < hd.win.len := by
          simp only [Bool.or_eq_false_iff, decide_eq_false_iff_not] at hc; omega
        apply refines_upd R h hd { content := v.content.set i byte, isStr := hd.isStr, stale := v.stale }
        · simp only [List.length_set]; exact hal
        · intro j hd' hj
          by_cases hjh : j = h
          · right; subst hjh; rw [hh] at hj; exact ⟨rfl, (Option.some.inj hj).symm⟩
          · left; exact ⟨hjh, hj⟩
        · exact fun j hj => List.getElem?_set_ne (by omega)
        · intro hlt; exact List.getElem?_set_self (by rw [hal]; exact hlt)
        · intro j hdj hjh hj hstj
          have := (stable_step inv (.overwrite h i byte) nc hlive j hdj hj hstj
            (by simp only [BufOp.target]; intro e; exact hjh (Option.some.inj e).symm)).2
          simp only [bufStep, hh, hc, Bool.false_eq_true, if_false] at this
          exact this
        · exact ⟨rfl, hvst⟩
        · intro _
          simp only []
          rw [readWin_overwrite _ _ _ _ hin hi, hvc hst]
  | appendTo h q =>
    simp only [bufStep, absStep]
    cases hh : s.handles[h]? with
    | none =>
      have : a[h]? = none := by
        rw [List.getElem?_eq_none_iff] at hh ⊢; omega
      simp only [this]; exact R
    | some hd =>
      obtain ⟨v, hv, hvs, hvst, hvc⟩ := R.2 h hd hh
      have hst : hd.stale = false := by
        simp only [opLive, hh] at hlive; simpa using hlive
      simp only [hv, hvs]
      cases hc : hd.isStr with
      | true => simp only [if_true]; exact R
      | false =>
        generalize hA : appendWin s.arrays (some hd.win) q nc = res
        obtain ⟨arrays', b'⟩ := res
        have hres := (appendWin_spec s.arrays (some hd.win) q nc (fun w1 hw => by cases hw; exact inv.hIn h hd hh)).resNone
        rw [hA] at hres
        simp only [Bool.false_eq_true, if_false]
        cases b' with
        | none => have := (hres rfl).1; cases this
        | some b =>
          exact refines_client inv R h hd v hh hv hst hd.win rfl rfl rfl (Nat.le_refl _) q nc arrays' b hA _ _ rfl
            ⟨by simp only [hvs, hc], hvst⟩ (by simp only [hvc hst])
  | setNoBuf h r =>
    simp only [bufStep, absStep]
    cases hh : s.handles[h]? with
    | none =>
      have : a[h]? = none := by
        rw [List.getElem?_eq_none_iff] at hh ⊢; omega
      simp only [this]; exact R
    | some hd =>
      obtain ⟨v, hv, hvs, hvst, hvc⟩ := R.2 h hd hh
      have hst : hd.stale = false := by
        simp only [opLive, hh] at hlive; simpa using hlive
      simp only [hv, hvs]
      cases hc : hd.isStr with
      | true => simp only [if_true]; exact R
      | false =>
        generalize hA : appendWin s.arrays (some { hd.win with len := 0 }) r nc = res
        obtain ⟨arrays', b'⟩ := res
        have hres := (appendWin_spec s.arrays (some { hd.win with len := 0 }) r nc (fun w1 hw => by
          cases hw; have := inv.hIn h hd hh; unfold WinIn at *; simp only []; omega)).resNone
        rw [hA] at hres
        simp only [Bool.false_eq_true, if_false]
        cases b' with
        | none => have := (hres rfl).1; cases this
        | some b =>
          exact refines_client inv R h hd v hh hv hst { hd.win with len := 0 } rfl rfl rfl (Nat.zero_le _) r nc arrays' b hA _ _ rfl
            ⟨by simp only [hvs, hc], hvst⟩ (by simp [readWin])

/-- The tight buffer implements the reference semantics along every history. -/
theorem refines_run {s : BufSt} {a : List AVal} (inv : BufInv s) (R : Refines s a) (steps : List (BufOp × Nat))
    (hlive : runLive tight s steps = true) : Refines (bufRun tight s steps) (absRun a steps) := by
  induction steps generalizing s a with
  | nil => exact R
  | cons st rest ih =>
    obtain ⟨op, nc⟩ := st
    simp only [runLive, Bool.and_eq_true] at hlive
    exact ih (bufInv_step' inv op nc) (refines_step inv R op nc hlive.1) hlive.2

theorem refines_init (c : Nat) : Refines (initBuf c) [] := by
  have h0 : (initBuf c).handles = [] := by
    unfold initBuf; by_cases hc : (c == 0) = true <;> simp [hc]
  refine ⟨by rw [h0]; rfl, ?_⟩
  intro j hd hj; rw [h0] at hj; simp at hj

/-- What a client can observe of the live values is what the reference semantics says. -/
theorem refines_obs {s : BufSt} {a : List AVal} (R : Refines s a) :
    (bufObs s).map (fun o => o.map (·.2)) = a.map (fun v => if v.stale then none else some v.content) := by
  apply List.ext_getElem?
  intro j
  simp only [bufObs, List.getElem?_map]
  cases hj : s.handles[j]? with
  | none =>
    have : a[j]? = none := by
      have := R.1
      rw [List.getElem?_eq_none_iff] at hj ⊢; omega
    rw [this]; rfl
  | some hd =>
    obtain ⟨v, hv, h1, h2, h3⟩ := R.2 j hd hj
    rw [hv]
    simp only [Option.map_some, h2]
    cases hs : hd.stale with
    | true => rfl
    | false => simp only [Bool.false_eq_true, if_false, Option.map_some, h3 hs]

/-! ### Executable form of the invariant -/

/-- `BufInv` as a Bool (for evaluating the hypothesis of the one-step theorems on a concrete state). -/
def bufInvB (s : BufSt) : Bool :=
  (match s.buf with | some b => decide (WinIn s.arrays b) | none => true) &&
  s.handles.all (fun h => decide (WinIn s.arrays h.win)) &&
  (List.range s.handles.length).all (fun i => (List.range s.handles.length).all fun j =>
    i == j || (match s.handles[i]?, s.handles[j]? with
      | some a, some b => a.stale || b.stale || decide (WinDisj a.win b.win)
      | _, _ => true)) &&
  s.handles.all (fun h => h.stale || (match s.buf with | some b => decide (WinFree h.win b) | none => true))

theorem bufInvB_sound {s : BufSt} (h : bufInvB s = true) : BufInv s := by
  simp only [bufInvB, Bool.and_eq_true] at h
  obtain ⟨⟨⟨h1, h2⟩, h3⟩, h4⟩ := h
  have lt_of_some : ∀ {i : Nat} {hd : Handle}, s.handles[i]? = some hd → i < s.handles.length := by
    intro i hd hi
    rcases Nat.lt_or_ge i s.handles.length with h | h
    · exact h
    · rw [List.getElem?_eq_none h] at hi; cases hi
  refine { bufIn := ?_, hIn := ?_, disj := ?_, free := ?_ }
  · intro b hb; rw [hb] at h1; simpa using h1
  · intro i hd hi
    have := List.all_eq_true.mp h2 hd (List.mem_of_getElem? hi)
    simpa using this
  · intro i j hi hj hne e1 e2 s1 s2
    have := List.all_eq_true.mp h3 i (List.mem_range.mpr (lt_of_some e1))
    have := List.all_eq_true.mp this j (List.mem_range.mpr (lt_of_some e2))
    rw [e1, e2] at this
    simp only [s1, s2, Bool.false_or, Bool.or_eq_true, beq_iff_eq, decide_eq_true_eq] at this
    rcases this with h | h
    · exact absurd h hne
    · exact h
  · intro i hd b hi st hb
    have := List.all_eq_true.mp h4 hd (List.mem_of_getElem? hi)
    rw [hb] at this
    simpa [st] using this

end Inspector.C07
