/-
Proofs/C03Frame.lean — the frame relation `offPathEq`: one-step unfoldings, reflexivity, and that
auto-created containers on the path are accepted.
-/
import InspectorModel.Proofs.C03Vals
set_option linter.unusedSimpArgs false
set_option linter.unusedVariables false
namespace Inspector.C03

theorem offPathEq_nil (n : Node) (b a : Val) : offPathEq n b a [] = true := by
  unfold offPathEq; rfl

theorem offPathEq_leaf (n : Node) (b a : Val) (p : List Seg) (h : n.isLeaf = true) : offPathEq n b a p = true := by
  cases p with
  | nil => exact offPathEq_nil n b a
  | cons s rest => unfold offPathEq; simp [h]

theorem offPathEq_struct_np (i : Info) (chld : List Node) (bfs afs : List Val) (s : Seg) (rest : List Seg) (hp : i.ptr = false) :
    offPathEq (.struct i chld) (.struct bfs) (.struct afs) (s :: rest) =
      offFields (fun ch b a => offPathEq ch b a rest) chld bfs afs s := by
  conv => lhs; unfold offPathEq
  simp [hp]

theorem offPathEq_map_key (i : Info) (k mv : Node) (bn an : Bool) (bks bvs aks avs : List Val) (s : Seg) (rest : List Seg)
    (key : Val) (hp : i.ptr = false) (hk : specKey k s = .key key) :
    offPathEq (.map i k mv) (.map bn bks bvs) (.map an aks avs) (s :: rest) =
      (offEntries (fun b a => offPathEq mv b a rest) aks avs key bks bvs &&
        aks.all (fun a => a == key || (lookupKey bks bvs a).isSome)) := by
  conv => lhs; unfold offPathEq
  simp [hp, hk]

theorem offPathEq_map_never (i : Info) (k mv : Node) (bn an : Bool) (bks bvs aks avs : List Val) (s : Seg) (rest : List Seg)
    (hp : i.ptr = false) (hk : specKey k s = .never) :
    offPathEq (.map i k mv) (.map bn bks bvs) (.map an aks avs) (s :: rest) =
      ((bks.zip bvs).all fun (bk, bv) => (aks.zip avs).any fun (ak, av) => ak == bk && av == bv) := by
  conv => lhs; unfold offPathEq
  simp [hp, hk]

theorem offPathEq_map_perr (i : Info) (k mv : Node) (bn an : Bool) (bks bvs aks avs : List Val) (s : Seg) (rest : List Seg)
    (hp : i.ptr = false) (hk : specKey k s = .perr) :
    offPathEq (.map i k mv) (.map bn bks bvs) (.map an aks avs) (s :: rest) =
      (dropCaps (.map bn bks bvs) == dropCaps (.map an aks avs)) := by
  conv => lhs; unfold offPathEq
  simp [hp, hk]

theorem offPathEq_map_unspec (i : Info) (k mv : Node) (bn an : Bool) (bks bvs aks avs : List Val) (s : Seg) (rest : List Seg)
    (hp : i.ptr = false) (hk : specKey k s = .unspec) :
    offPathEq (.map i k mv) (.map bn bks bvs) (.map an aks avs) (s :: rest) = true := by
  conv => lhs; unfold offPathEq
  simp [hp, hk]

theorem offPathEq_slice_some (i : Info) (e : Node) (bn an : Bool) (bes aes : List Val) (bc ac : Nat) (s : Seg) (rest : List Seg)
    (idx : Int) (hp : i.ptr = false) (hb : (i.typn == "[]byte") = false) (hpi : s.pi = some idx) :
    offPathEq (.slice i e) (.slice bn bes bc) (.slice an aes ac) (s :: rest) =
      (bes.length == aes.length && offElems (fun b a => offPathEq e b a rest) idx bes aes 0) := by
  conv => lhs; unfold offPathEq
  have hb' : ¬ i.typn = "[]byte" := by simpa using hb
  simp [hp, hb', hpi]

theorem offPathEq_slice_none (i : Info) (e : Node) (bn an : Bool) (bes aes : List Val) (bc ac : Nat) (s : Seg) (rest : List Seg)
    (hp : i.ptr = false) (hb : (i.typn == "[]byte") = false) (hpi : s.pi = none) :
    offPathEq (.slice i e) (.slice bn bes bc) (.slice an aes ac) (s :: rest) =
      (dropCaps (.slice bn bes bc) == dropCaps (.slice an aes ac)) := by
  conv => lhs; unfold offPathEq
  have hb' : ¬ i.typn = "[]byte" := by simpa using hb
  simp [hp, hb', hpi]

theorem isLeaf_withPtr (n : Node) (b : Bool) : (n.withPtr b).isLeaf = n.isLeaf := by
  cases n <;> simp [Node.withPtr, Node.isLeaf, Node.isBasicTyp, Node.isBytes]

theorem offPathEq_ptr_ptr (n : Node) (b a : Val) (p : List Seg) (hp : n.ptr = true) :
    offPathEq n (.ptr b) (.ptr a) p = offPathEq (n.withPtr false) b a p := by
  cases p with
  | nil => simp [offPathEq_nil]
  | cons s rest =>
    unfold offPathEq
    by_cases hl : n.isLeaf = true
    · simp [hl, isLeaf_withPtr]
    · simp [hp, hl, isLeaf_withPtr]
      cases n <;> cases b <;> cases a <;> rfl

theorem offPathEq_nil_nil (n : Node) (p : List Seg) (hp : n.ptr = true) :
    offPathEq n .nilptr .nilptr p = true := by
  cases p with
  | nil => simp [offPathEq_nil]
  | cons s rest =>
    unfold offPathEq
    simp [hp]

theorem offPathEq_nil_ptr (n : Node) (a : Val) (p : List Seg) (hp : n.ptr = true) :
    offPathEq n .nilptr (.ptr a) p = offPathEq (n.withPtr false) (dropCaps (zeroVal (n.withPtr false))) a p := by
  cases p with
  | nil => simp [offPathEq_nil]
  | cons s rest =>
    unfold offPathEq
    by_cases hl : n.isLeaf = true
    · simp [hl, isLeaf_withPtr]
    · simp [hp, hl, isLeaf_withPtr]
      generalize dropCaps (zeroVal (n.withPtr false)) = z
      cases n <;> cases z <;> cases a <;> rfl

theorem offPathEq_ptr_nonptr (n : Node) (b a : Val) (s : Seg) (rest : List Seg) (hp : n.ptr = true)
    (hl : n.isLeaf = false) (ha : ∀ a', a ≠ .ptr a') : offPathEq n (.ptr b) a (s :: rest) = false := by
  unfold offPathEq
  simp [hp, hl]
  cases a <;> simp_all

theorem NodeWF_withPtr (n : Node) (b : Bool) : NodeWF (n.withPtr b) = NodeWF n := by
  cases n <;> simp [Node.withPtr, NodeWF]

theorem WTs_length (chld : List Node) (fs : List Val) (h : WTs chld fs = true) : chld.length = fs.length := by
  induction chld generalizing fs with
  | nil => cases fs <;> simp_all [WTs]
  | cons c cs ih =>
    cases fs with
    | nil => simp [WTs] at h
    | cons f fs => simp only [WTs, Bool.and_eq_true] at h; simp [ih fs h.2]

theorem WTs_zip_mem (chld : List Node) (fs : List Val) (c : Node) (x : Val) (h : WTs chld fs = true)
    (hm : (c, x) ∈ chld.zip fs) : WT c x = true := by
  induction chld generalizing fs with
  | nil => simp at hm
  | cons c' cs ih =>
    cases fs with
    | nil => simp at hm
    | cons f fs =>
      simp only [WTs, Bool.and_eq_true] at h
      simp only [List.zip_cons_cons, List.mem_cons, Prod.mk.injEq] at hm
      rcases hm with ⟨h1, h2⟩ | hm
      · subst h1; subst h2; exact h.1
      · exact ih fs h.2 hm

theorem WTall_mem (e : Node) (es : List Val) (x : Val) (h : WTall e es = true) (hm : x ∈ es) : WT e x = true := by
  induction es with
  | nil => cases hm
  | cons v vs ih =>
    simp only [WTall, Bool.and_eq_true] at h
    cases hm with
    | head => exact h.1
    | tail _ hm => exact ih h.2 hm

theorem Ds_mem (vs : List Val) (b : Val) (h : b ∈ Ds vs) : ∃ x, x ∈ vs ∧ b = D x := by
  rw [Ds_eq_map] at h
  obtain ⟨x, hx, he⟩ := List.mem_map.mp h
  exact ⟨x, hx, he.symm⟩

theorem never_refl (ks vs : List Val) :
    ((ks.zip vs).all fun (bk, bv) => (ks.zip vs).any fun (ak, av) => ak == bk && av == bv) = true := by
  rw [List.all_eq_true]
  intro ⟨bk, bv⟩ hm
  rw [List.any_eq_true]
  exact ⟨(bk, bv), hm, by simp⟩

theorem ValOK_map (nl : Bool) (ks vs : List Val) (h : ValOK (.map nl ks vs) = true) :
    (nl = true → ks = [] ∧ vs = []) ∧ keysDistinct ks = true ∧ ValOKs ks = true ∧ ValOKs vs = true := by
  simp only [ValOK, Bool.and_eq_true, Bool.or_eq_true, Bool.not_eq_true', List.isEmpty_iff] at h
  refine ⟨fun hn => ?_, h.1.1.2, h.1.2, h.2⟩
  rcases h.1.1.1 with h1 | h1
  · rw [hn] at h1; cases h1
  · exact h1

theorem ValOK_slice (nl : Bool) (es : List Val) (c : Nat) (h : ValOK (.slice nl es c) = true) :
    (nl = true → es = []) ∧ ValOKs es = true := by
  simp only [ValOK, Bool.and_eq_true, Bool.or_eq_true, Bool.not_eq_true', List.isEmpty_iff] at h
  refine ⟨fun hn => ?_, h.2⟩
  rcases h.1 with h1 | h1
  · rw [hn] at h1; cases h1
  · exact h1

/-- Reflexivity of the frame relation on values a Go program can hold, for a non-pointer node. -/
theorem offPathEq_refl_np (s : Seg) (rest : List Seg)
    (ih : ∀ (n : Node) (v : Val), NodeWF n = true → WT n v = true → ValOK v = true → offPathEq n (D v) (D v) rest = true)
    (n : Node) (w : Val) (hp : n.ptr = false) (hwf : NodeWF n = true) (hwt : WT n w = true) (hok : ValOK w = true) :
    offPathEq n (D w) (D w) (s :: rest) = true := by
  cases n with
  | basic i => exact offPathEq_leaf _ _ _ _ rfl
  | struct i chld =>
    have hip : i.ptr = false := hp
    obtain ⟨fs, hfs, hwts⟩ := WT_struct_inv i chld w hip hwt
    subst hfs
    simp only [D]
    rw [offPathEq_struct_np _ _ _ _ _ _ hip]
    apply offFields_refl
    · simp [WTs_length _ _ hwts]
    · intro c b hm
      obtain ⟨x, hx, hb⟩ := zip_Ds_mem _ _ _ _ hm
      subst hb
      have hmem := List.of_mem_zip hx
      exact ih c x (NodeWFs_mem _ _ (by simpa [NodeWF] using hwf) hmem.1) (WTs_zip_mem _ _ _ _ hwts hx)
        (ValOKs_mem _ _ (by simpa [ValOK] using hok) hmem.2)
  | map i k mv =>
    have hip : i.ptr = false := hp
    obtain ⟨nl, ks, vs, hm, hlen, hwk, hwv⟩ := WT_map_inv i k mv w hip hwt
    subst hm
    simp only [NodeWF, Bool.and_eq_true] at hwf
    obtain ⟨⟨hkb, hwfk⟩, hwfm⟩ := hwf
    obtain ⟨hne, hkd, hokk, hokv⟩ := ValOK_map _ _ _ hok
    cases k with
    | basic ki =>
      simp only [D]
      rw [Ds_of_WTall_basic ki ks hwk]
      have hF : ∀ b ∈ Ds vs, offPathEq mv b b rest = true := by
        intro b hb
        obtain ⟨x, hx, he⟩ := Ds_mem _ _ hb
        subst he
        exact ih mv x hwfm (WTall_mem _ _ _ hwv hx) (ValOKs_mem _ _ hokv hx)
      cases hk : specKey (Node.basic ki) s with
      | key key =>
        rw [offPathEq_map_key _ _ _ _ _ _ _ _ _ _ _ key hip hk]
        have hkp := (specKey_key_scalar _ _ _ hk).2.2
        have hnd := KeysNoDup_of ki ks hkp hwk hkd
        rw [Bool.and_eq_true]
        refine ⟨offEntries_refl _ _ _ _ hnd hF, ?_⟩
        rw [List.all_eq_true]
        intro a ha
        rw [Bool.or_eq_true]; right
        exact lookupKey_isSome_of_mem _ _ _ (by simp [hlen]) ha
      | never =>
        rw [offPathEq_map_never _ _ _ _ _ _ _ _ _ _ _ hip hk]
        exact never_refl _ _
      | perr =>
        rw [offPathEq_map_perr _ _ _ _ _ _ _ _ _ _ _ hip hk]
        simp
      | unspec => exact offPathEq_map_unspec _ _ _ _ _ _ _ _ _ _ _ hip hk
    | _ => simp [Node.isBasicTyp] at hkb
  | slice i e =>
    have hip : i.ptr = false := hp
    by_cases hb : (i.typn == "[]byte") = true
    · exact offPathEq_leaf _ _ _ _ (by simpa using hb)
    · have hb' : (i.typn == "[]byte") = false := by simpa using hb
      obtain ⟨nl, es, c, hes, hwte⟩ := WT_slice_inv i e w hip hb' hwt
      subst hes
      simp only [D]
      cases hpi : s.pi with
      | some idx =>
        rw [offPathEq_slice_some _ _ _ _ _ _ _ _ _ _ idx hip hb' hpi]
        rw [Bool.and_eq_true]
        refine ⟨by simp, ?_⟩
        apply offElems_refl
        intro b hb
        obtain ⟨x, hx, he⟩ := Ds_mem _ _ hb
        subst he
        exact ih e x (by simpa [NodeWF] using hwf) (WTall_mem _ _ _ hwte hx)
          (ValOKs_mem _ _ (ValOK_slice _ _ _ hok).2 hx)
      | none =>
        rw [offPathEq_slice_none _ _ _ _ _ _ _ _ _ _ hip hb' hpi]
        simp

theorem offPathEq_refl (p : List Seg) : ∀ (n : Node) (v : Val),
    NodeWF n = true → WT n v = true → ValOK v = true → offPathEq n (D v) (D v) p = true := by
  induction p with
  | nil => intro n v _ _ _; exact offPathEq_nil _ _ _
  | cons s rest ih =>
    intro n v hwf hwt hok
    rcases WT_ptr_cases n v hwt with ⟨hp, hv⟩ | ⟨hp, _, _⟩
    · rcases hv with hv | ⟨w, hv, hw⟩
      · subst hv; simp only [D]; exact offPathEq_nil_nil n _ hp
      · subst hv
        simp only [D]
        rw [offPathEq_ptr_ptr n _ _ _ hp]
        exact offPathEq_refl_np s rest ih _ w (by simp) (by rw [NodeWF_withPtr]; exact hwf) hw (by simpa [ValOK] using hok)
    · exact offPathEq_refl_np s rest ih n v hp hwf hwt hok

/-- A nil pointer `before` whose `after` was created on the way: what the relation compares. -/
theorem offPathEq_created (ch : Node) (z a : Val) (rest : List Seg) (hp : ch.ptr = true) (hl : ch.isLeaf = false)
    (hz : dropCaps (zeroVal (ch.withPtr false)) = z)
    (h : offPathEq ch (.ptr z) a rest = true) : offPathEq ch .nilptr a rest = true := by
  cases rest with
  | nil => exact offPathEq_nil _ _ _
  | cons s r =>
    cases a with
    | ptr a' =>
      rw [offPathEq_ptr_ptr _ _ _ _ hp] at h
      rw [offPathEq_nil_ptr _ _ _ hp, hz]
      exact h
    | _ =>
      rw [offPathEq_ptr_nonptr _ _ _ _ _ hp hl (by intro a' h'; cases h')] at h
      cases h

/-- Auto-created containers on the path are accepted by the frame relation: comparing against the value
with the container created is as good as comparing against the nil original. -/
theorem autoCreate_frame (ch : Node) (fv a : Val) (rest : List Seg) (hl : ch.isLeaf = false)
    (hwt : WT ch fv = true) (hok : ValOK fv = true) (hd : ndepth ch ≤ 64)
    (h : offPathEq ch (D (autoCreate ch fv)) a rest = true) : offPathEq ch (D fv) a rest = true := by
  unfold autoCreate at h
  by_cases hn : isNilColl fv = true
  · simp only [hn, Bool.not_true, Bool.false_eq_true, if_false] at h
    have hzd : dropCaps (zeroVal (ch.withPtr false)) = D (zeroVal (ch.withPtr false)) := by
      apply dropCaps_eq_D
      have := vdepth_zeroVal (ch.withPtr false)
      rw [ndepth_withPtr] at this
      omega
    rcases WT_ptr_cases ch fv hwt with ⟨hp, hv⟩ | ⟨hp, hnn, hnp⟩
    · -- pointer-typed child: `fv` is the nil pointer
      rcases hv with hv | ⟨w, hv, _⟩
      · subst hv
        simp only [D]
        cases ch with
        | basic i => simp at hl
        | struct i c =>
          have hip : i.ptr = true := hp
          simp only [hip, if_true, D] at h
          exact offPathEq_created _ _ _ _ hp hl hzd h
        | map i k v =>
          have hip : i.ptr = true := hp
          simp only [hip, if_true, D, Ds] at h
          refine offPathEq_created _ _ _ _ hp hl ?_ h
          rw [hzd]
          simp [Node.withPtr, zeroVal, D, Ds]
        | slice i e =>
          have hip : i.ptr = true := hp
          have hb : ¬ i.typn = "[]byte" := by simpa using hl
          simp only [hip, if_true, D, Ds] at h
          refine offPathEq_created _ _ _ _ hp hl ?_ h
          rw [hzd]
          simp [Node.withPtr, zeroVal, D, Ds, hb]
      · subst hv; simp [isNilColl] at hn
    · -- a nil map / slice held by value: it has no entries
      cases ch with
      | basic i => simp at hl
      | struct i c =>
        have hip : i.ptr = false := hp
        simp only [hip, Bool.false_eq_true, if_false] at h
        exact h
      | map i k v =>
        have hip : i.ptr = false := hp
        simp only [hip, Bool.false_eq_true, if_false, D, Ds] at h
        obtain ⟨nl, ks, vs, hm, _, _, _⟩ := WT_map_inv i k v fv hip hwt
        subst hm
        have hnl : nl = true := by cases nl <;> simp [isNilColl] at hn ⊢
        obtain ⟨he, _⟩ := ValOK_map _ _ _ hok
        obtain ⟨h1, h2⟩ := he hnl
        subst h1; subst h2
        simpa [D, Ds] using h
      | slice i e =>
        have hip : i.ptr = false := hp
        have hb : (i.typn == "[]byte") = false := by simpa using hl
        simp only [hip, Bool.false_eq_true, if_false, D, Ds] at h
        obtain ⟨nl, es, c, hes, _⟩ := WT_slice_inv i e fv hip hb hwt
        subst hes
        have hnl : nl = true := by cases nl <;> simp [isNilColl] at hn ⊢
        obtain ⟨he, _⟩ := ValOK_slice _ _ _ hok
        have h1 := he hnl
        subst h1
        simpa [D, Ds] using h
  · have hn' : isNilColl fv = false := by simpa using hn
    simpa [hn'] using h

end Inspector.C03
