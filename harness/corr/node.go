package corr

import (
	"encoding/xml"
	"os"
	"strconv"
	"strings"
)

// XNode mirrors the XML dump written by Compiler.WriteXML (node.go of the repository).
type XNode struct {
	Type          string  `xml:"type,attr"`
	Name          string  `xml:"name,attr"`
	TypeName      string  `xml:"typeName,attr"`
	Underlying    string  `xml:"underlyingName,attr"`
	Package       string  `xml:"package,attr"`
	PackageImport string  `xml:"packageImport,attr"`
	Pointer       bool    `xml:"pointer,attr"`
	HasBytes      bool    `xml:"hasBytes,attr"`
	HasLC         bool    `xml:"hasLC,attr"`
	MapKey        *XNode  `xml:"mapKey"`
	MapValue      *XNode  `xml:"mapValue"`
	Slice         *XNode  `xml:"slice"`
	Nodes         []XNode `xml:"nodes>node"`
}

func LoadXNode(path string) (*XNode, error) {
	b, err := os.ReadFile(path)
	if err != nil {
		return nil, err
	}
	var n XNode
	if err := xml.Unmarshal(b, &n); err != nil {
		return nil, err
	}
	return &n, nil
}

func tokStr(s string) string {
	if s == "" {
		return "-"
	}
	return strings.ReplaceAll(s, " ", "%20")
}

func b01(b bool) string {
	if b {
		return "1"
	}
	return "0"
}

// Tokens serialises the node tree in the prefix form the Lean driver reads.
func (n *XNode) Tokens(sb *strings.Builder) {
	info := tokStr(n.TypeName) + " " + tokStr(n.Underlying) + " " + tokStr(n.Name) + " " + tokStr(n.Package) + " " + b01(n.Pointer) + b01(n.HasBytes) + b01(n.HasLC)
	switch n.Type {
	case "struct":
		sb.WriteString("S " + info + " " + strconv.Itoa(len(n.Nodes)))
		for i := range n.Nodes {
			sb.WriteByte(' ')
			n.Nodes[i].Tokens(sb)
		}
	case "map":
		sb.WriteString("M " + info + " ")
		if n.MapKey != nil && n.MapValue != nil {
			n.MapKey.Tokens(sb)
			sb.WriteByte(' ')
			n.MapValue.Tokens(sb)
		} else {
			sb.WriteString("? ?")
		}
	case "slice":
		sb.WriteString("L " + info + " ")
		if n.Slice != nil {
			n.Slice.Tokens(sb)
		} else {
			sb.WriteString("?")
		}
	default:
		sb.WriteString("B " + info)
	}
}

func (n *XNode) String() string {
	var sb strings.Builder
	n.Tokens(&sb)
	return sb.String()
}

// IsBytes: typ == slice && typn == "[]byte".
func (n *XNode) IsBytes() bool { return n.Type == "slice" && n.TypeName == "[]byte" }
