package corr

import "math"

func init() {
	Runners["C16"] = runC16
}

func staticSrc(r *Rng) SrcSpec {
	if r.Chance(1, 14) {
		return SrcSpec{Kind: "foreign", Form: []string{"foreign", "foreignp"}[r.Intn(2)]}
	}
	return GenSrc(r, KindNames[r.Intn(len(KindNames))])
}

// special floats: every operator x {NaN, +Inf, -Inf, small exact values} on both sides, both widths, both forms
func runC16Special(p *Plan) {
	lefts := []float64{math.NaN(), math.Inf(1), math.Inf(-1), 0, 1.5, -2}
	rights := []string{"NaN", "nan", "Inf", "+Inf", "-Inf", "inf", "infinity", "0", "1.5", "-2", "1e999", "-1e999", "x", ""}
	for _, kind := range []string{"float64", "float32"} {
		for _, form := range []string{"v", "p"} {
			for _, l := range lefts {
				for _, rt := range rights {
					for op := 0; op <= 7; op++ {
						OpStaticCmpSpecial(p.Out, kind, form, l, op, rt)
						p.Out.Count("special-float:" + fclass(l)[:1])
					}
				}
			}
		}
	}
}

func runC16(p *Plan) {
	runC16Special(p)
	r := NewRng(p.Seed)
	reps := scale(p.Tier, 50, 400)
	for _, kind := range KindNames {
		for i := 0; i < reps; i++ {
			s := GenSrc(r, kind)
			t, _ := ScalarText(s.V)
			cands := OperandsNear(r, s.V, s.V.IsValid())
			right := cands[len(cands)-1-r.Intn(min(len(cands), 10))]
			if r.Chance(1, 4) {
				right = t
			}
			op := 1 + r.Intn(6)
			if r.Chance(1, 10) {
				op = []int{0, 7, 8, -1}[r.Intn(4)]
			}
			OpStaticCmp(p.Out, s, op, right)
			// DeepEqual: same family (equal / adjacent / far), cross family, foreign
			var other SrcSpec
			switch r.Intn(5) {
			case 0:
				other = SrcSpec{Kind: s.Kind, Form: []string{"v", "p"}[r.Intn(2)], V: s.V}
			case 1:
				other = GenSrc(r, kind)
			case 2:
				other = sameFamily(r, s)
			case 3:
				other = crossNumeric(r, s)
			default:
				other = staticSrc(r)
			}
			// the divergent combinations cost a child process each: keep them to a handful
			if isTextKind(s.Kind) != isTextKind(other.Kind) && !r.Chance(1, 12) {
				other = sameFamily(r, s)
			}
			OpStaticDeq(p.Out, s, other)
			OpStaticLC(p.Out, s, r.Bool())
			OpStaticGet(p.Out, s)
			OpStaticCopy(p.Out, s)
			dk := kind
			if r.Chance(1, 5) {
				dk = KindNames[r.Intn(len(KindNames))]
			}
			OpStaticCopyTo(p.Out, s, dk, []string{"p", "p", "p", "v", "pn"}[r.Intn(5)])
			OpStaticReset(p.Out, s)
			p.Out.Count("kind:" + kind)
			p.Out.Count("form:" + s.Form)
		}
	}
	for i := 0; i < 6; i++ {
		f := SrcSpec{Kind: "foreign", Form: []string{"foreign", "foreignp"}[i%2]}
		OpStaticCmp(p.Out, f, 1+i, "1")
		OpStaticDeq(p.Out, f, GenSrc(r, "int"))
		OpStaticDeq(p.Out, f, f)
		OpStaticLC(p.Out, f, i%2 == 0)
		OpStaticCopy(p.Out, f)
		OpStaticCopyTo(p.Out, f, "int", "p")
		OpStaticReset(p.Out, f)
	}
}

// crossNumeric pairs an integer with a float near it (equal, or with a fractional part) and vice versa.
func crossNumeric(r *Rng, s SrcSpec) SrcSpec {
	if !s.V.IsValid() {
		return staticSrc(r)
	}
	frac := []int64{0, 0, 1 << 19, 1, 1 << 18}[r.Intn(5)]
	switch familyOf(s.Kind) {
	case "int":
		n := s.V.Int()
		if n > -1000000 && n < 1000000 {
			o := GenSrc(r, "float64")
			o.Form = "v"
			if n < 0 {
				frac = -frac
			}
			o.V.SetFloat(FloatOfFx(n*FxUnit + frac))
			return o
		}
	case "uint":
		n := s.V.Uint()
		if n < 1000000 {
			o := GenSrc(r, []string{"float64", "float32"}[r.Intn(2)])
			o.Form = "v"
			o.V.SetFloat(FloatOfFx(int64(n)*FxUnit + frac))
			return o
		}
	case "float":
		fx, _ := FxOf(s.V.Float())
		k := []string{"int", "int32", "uint16", "uint64", "int64"}[r.Intn(5)]
		o := GenSrc(r, k)
		o.Form = "v"
		n := fx / FxUnit
		func() {
			defer func() { _ = recover() }()
			if familyOf(k) == "int" && !o.V.OverflowInt(n) {
				o.V.SetInt(n)
			} else if n >= 0 && !o.V.OverflowUint(uint64(n)) {
				o.V.SetUint(uint64(n))
			}
		}()
		return o
	}
	return staticSrc(r)
}

var familyKinds = map[string][]string{
	"int": {"int", "int8", "int16", "int32", "int64"}, "uint": {"uint", "uint8", "uint16", "uint32", "uint64"},
	"float": {"float32", "float64"}, "text": {"string", "[]byte"}, "bool": {"bool"},
}

func familyOf(kind string) string {
	for f, ks := range familyKinds {
		for _, k := range ks {
			if k == kind {
				return f
			}
		}
	}
	return ""
}

// sameFamily proposes an operand of the same family, of another width / representation, often equal in value.
func sameFamily(r *Rng, s SrcSpec) SrcSpec {
	ks := familyKinds[familyOf(s.Kind)]
	k := ks[r.Intn(len(ks))]
	o := GenSrc(r, k)
	if s.V.IsValid() && r.Chance(2, 3) {
		// try to carry the value over
		func() {
			defer func() { _ = recover() }()
			v := o.V
			switch familyOf(k) {
			case "int":
				if !v.OverflowInt(s.V.Int()) {
					v.SetInt(s.V.Int())
				}
			case "uint":
				if !v.OverflowUint(s.V.Uint()) {
					v.SetUint(s.V.Uint())
				}
			case "float":
				fx, _ := FxOf(s.V.Float())
				d := []int64{0, 0, 500, 1048, 1049, 5000}[r.Intn(6)]
				v.SetFloat(FloatOfFx(fx + d))
			case "text":
				t, _ := ScalarText(s.V)
				if k == "string" {
					v.SetString(t)
				} else {
					v.SetBytes([]byte(t))
				}
			case "bool":
				v.SetBool(s.V.Bool())
			}
		}()
	}
	if o.Form == "pn" {
		o.Form = "p"
	}
	return o
}
