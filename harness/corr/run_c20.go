package corr

import (
	"reflect"
	"regexp"
	"strconv"
	"sync"

	"github.com/koykov/inspector"
)

func init() {
	Runners["C20"] = runC20
}

var capRe = regexp.MustCompile(`\b(y|L\d+:)\d+`)

// serNoCap serialises without capacities: they depend on where in the buffer a value landed, which
// depends on map iteration order.
func serNoCap(v reflect.Value) string {
	return capRe.ReplaceAllStringFunc(Ser(v), func(m string) string {
		if m[0] == 'y' {
			return "y"
		}
		return m[:len(m)-len(m[indexAfterColon(m):])]
	})
}

func indexAfterColon(m string) int {
	for i := 0; i < len(m); i++ {
		if m[i] == ':' {
			return i + 1
		}
	}
	return len(m)
}

type raceJob struct {
	name string
	run  func() string
	want string
}

// runC20 runs read operations on shared values and write operations on private values from many
// goroutines at once (meant to be built with -race) and compares every call with its sequential result.
// coldStart runs first uses of the library from several goroutines at once, before anything in this
// process has called it sequentially: lazily initialised package state (a cache, a compiled pattern, a
// registry filled on first use) is written here or never.
func coldStart() (mismatch int) {
	type res struct{ f64, i64, u64 string }
	texts := []string{"12", "-7", "3.5", "250", "+9", "0.25", "1e2", "65535"}
	one := func(t string) res {
		var f float64
		var i int64
		var u uint64
		inspector.Assign(&f, t)
		inspector.Assign(&i, []byte(t))
		inspector.Assign(&u, &t)
		var d string
		inspector.AssignBuf(&d, 42, &inspector.ByteBuffer{})
		var eq bool
		_ = inspector.StaticInspector{}.Compare(&f, inspector.OpEq, t, &eq)
		_, _ = inspector.GetInspector("static")
		return res{strconv.FormatFloat(f, 'g', -1, 64), strconv.FormatInt(i, 10), strconv.FormatUint(u, 10) + d + b01(eq)}
	}
	const n = 8
	got := make([][]res, n)
	var wg sync.WaitGroup
	for g := 0; g < n; g++ {
		wg.Add(1)
		g := g
		go func() {
			defer wg.Done()
			for k := range texts {
				got[g] = append(got[g], one(texts[(k+g)%len(texts)]))
			}
		}()
	}
	wg.Wait()
	for g := 0; g < n; g++ {
		for k := range texts {
			if got[g][k] != one(texts[(k+g)%len(texts)]) {
				mismatch++
			}
		}
	}
	return
}

func runC20(p *Plan) {
	cold := coldStart()
	r := NewRng(p.Seed)
	goroutines := scale(p.Tier, 8, 16)
	rounds := scale(p.Tier, 3, 10)
	maxTypes := scale(p.Tier, 60, 400)
	var jobs []*raceJob
	types := p.Types
	if len(types) > maxTypes {
		// the shipped types first, then a seeded sample of the grammar shapes
		var keep []*TypeEntry
		for _, e := range types {
			if e.Group != "grammar" {
				keep = append(keep, e)
			}
		}
		for len(keep) < maxTypes {
			keep = append(keep, types[r.Intn(len(types))])
		}
		types = keep
	}
	for _, e := range types {
		e := e
		tr := r.Fork(hashStr(e.Name))
		v := NewGen(tr, ProfFull).Val(e.Type, 0)
		shared := reflect.New(e.Type)
		shared.Elem().Set(DeepCopy(v))
		sharedArg := shared.Interface()
		ps := EnumPaths(tr, v, 12)
		for pi, path := range ps.Paths {
			path := path
			setTxt := []string{"2.5", "7", "-1.25", "300.75", "1e3"}[pi%5]
			jobs = append(jobs, &raceJob{name: e.Name + ".SetText", run: func() (out string) {
				defer func() {
					if rec := recover(); rec != nil {
						out = "panic"
					}
				}()
				priv := reflect.New(e.Type)
				priv.Elem().Set(DeepCopy(v))
				err := e.Ins.SetWithBuffer(priv.Interface(), setTxt, inspector.NewByteBuffer(0), path...)
				if err != nil {
					return "err " + serNoCap(priv.Elem())
				}
				return serNoCap(priv.Elem())
			}})
			jobs = append(jobs,
				&raceJob{name: e.Name + ".GetTo", run: func() string { return callGetTo(e.Ins, sharedArg, path) }},
				&raceJob{name: e.Name + ".Compare", run: func() string { _, s := callCmp(e.Ins, sharedArg, 1, "1", false, path); return s }},
				&raceJob{name: e.Name + ".Length", run: func() string { return callLC(e.Ins, false, sharedArg, path) }},
				&raceJob{name: e.Name + ".Loop", run: func() string {
					it := &recIter{wantKey: []bool{true}}
					var buf []byte
					defer func() { _ = recover() }()
					_ = e.Ins.Loop(sharedArg, it, &buf, path...)
					return strconv.Itoa(len(it.groups))
				}},
				// a write on a private value with a private buffer
				&raceJob{name: e.Name + ".Set", run: func() (out string) {
					defer func() {
						if rec := recover(); rec != nil {
							out = "panic"
						}
					}()
					priv := reflect.New(e.Type)
					priv.Elem().Set(DeepCopy(v))
					err := e.Ins.SetWithBuffer(priv.Interface(), int32(5), &inspector.ByteBuffer{}, path...)
					if err != nil {
						return "err " + serNoCap(priv.Elem())
					}
					return serNoCap(priv.Elem())
				}})
		}
		jobs = append(jobs,
			&raceJob{name: e.Name + ".DeepEqual", run: func() string { return callDeq(e.Ins, sharedArg, sharedArg, nil) }},
			&raceJob{name: e.Name + ".Copy", run: func() (out string) {
				defer func() {
					if rec := recover(); rec != nil {
						out = "panic"
					}
				}()
				c, err := e.Ins.Copy(sharedArg)
				if err != nil {
					return "err"
				}
				cv, _ := derefAll(reflect.ValueOf(c), e.Type)
				return serNoCap(cv)
			}},
			&raceJob{name: e.Name + ".ResetCopyTo", run: func() (out string) {
				defer func() {
					if rec := recover(); rec != nil {
						out = "panic"
					}
				}()
				priv := reflect.New(e.Type)
				priv.Elem().Set(DeepCopy(v))
				if err := e.Ins.Reset(priv.Interface()); err != nil {
					return "err"
				}
				if err := e.Ins.CopyTo(sharedArg, priv.Interface(), inspector.NewByteBuffer(0)); err != nil {
					return "err"
				}
				return serNoCap(priv.Elem())
			}})
	}
	// built-in inspectors on shared values
	ss := []string{"a", "bc", "def"}
	m := map[string]any{"a": 1, "n": map[string]any{"b": "x"}}
	jobs = append(jobs,
		&raceJob{name: "strings.Get", run: func() string { return callGetTo(inspector.StringsInspector{}, &ss, []string{"1"}) }},
		&raceJob{name: "samap.Get", run: func() string { return callGetTo(inspector.StringAnyMapInspector{}, &m, []string{"n", "b"}) }},
		&raceJob{name: "static.Compare", run: func() string {
			var res bool
			_ = inspector.StaticInspector{}.Compare(&ss[0], inspector.OpEq, "a", &res)
			return b01(res)
		}},
		&raceJob{name: "Assign", run: func() string {
			var d string
			inspector.AssignBuf(&d, 12345, inspector.NewByteBuffer(0))
			return d
		}},
		&raceJob{name: "GetInspector", run: func() string {
			_, err := inspector.GetInspector("static")
			return b01(err == nil)
		}})
	// the assignment library: every destination family from texts that go through atoi / atou / atof
	for _, txt := range []string{"1.5", "2.25", "-3.75", "100", "7e2", "0.125", "-42", "65536.5", "true", "x"} {
		txt := txt
		jobs = append(jobs,
			&raceJob{name: "Assign.float64", run: func() string {
				var d float64
				ok := inspector.Assign(&d, txt)
				return strconv.FormatFloat(d, 'g', -1, 64) + b01(ok)
			}},
			&raceJob{name: "Assign.float32", run: func() string {
				var d float32
				ok := inspector.Assign(&d, &txt)
				return strconv.FormatFloat(float64(d), 'g', -1, 32) + b01(ok)
			}},
			&raceJob{name: "Assign.int", run: func() string {
				var d int64
				ok := inspector.Assign(&d, []byte(txt))
				return strconv.FormatInt(d, 10) + b01(ok)
			}},
			&raceJob{name: "Assign.uint", run: func() string {
				var d uint32
				ok := inspector.Assign(&d, txt)
				return strconv.FormatUint(uint64(d), 10) + b01(ok)
			}},
			&raceJob{name: "Assign.bool", run: func() string {
				var d bool
				ok := inspector.Assign(&d, txt)
				return b01(d) + b01(ok)
			}},
			&raceJob{name: "Assign.bytes", run: func() string {
				var d []byte
				ok := inspector.AssignBuf(&d, txt, &inspector.ByteBuffer{})
				return string(d) + b01(ok)
			}},
			&raceJob{name: "static.Compare.float", run: func() string {
				f := 2.25
				var res bool
				_ = inspector.StaticInspector{}.Compare(&f, inspector.OpGtq, txt, &res)
				return b01(res)
			}})
	}
	for _, j := range jobs {
		j.want = j.run()
	}
	var mu sync.Mutex
	mism := map[string]int{}
	var wg sync.WaitGroup
	for g := 0; g < goroutines; g++ {
		wg.Add(1)
		gr := r.Fork(uint64(1000 + g))
		go func() {
			defer wg.Done()
			for round := 0; round < rounds; round++ {
				off := gr.Intn(len(jobs))
				for i := range jobs {
					j := jobs[(i+off)%len(jobs)]
					if got := j.run(); got != j.want {
						mu.Lock()
						mism[j.name]++
						mu.Unlock()
					}
				}
			}
		}()
	}
	wg.Wait()
	total := cold
	first := "-"
	if cold > 0 {
		first = "cold-start"
	}
	for k, c := range mism {
		total += c
		if first == "-" || k < first {
			first = k
		}
	}
	p.Out.Op("RACE " + strconv.Itoa(len(jobs)) + " " + strconv.Itoa(goroutines) + " " + strconv.Itoa(rounds) + " | " + strconv.Itoa(total) + " " + first)
	p.Out.Count("jobs")
}
