/-
Driver/LibOps.lean — judges the op records of the built-in inspectors (strings, map[string]any, static).
-/
import Driver.GenOps
open Inspector Inspector.Driver

def kfLibFlags (c : LibCfg) : List (String × LibCfg) :=
  (if c.stringsSetEmptyNoop then [("strings-set-empty-noop", { c with stringsSetEmptyNoop := false })] else []) ++
  (if c.stringsEmptyUnequal then [("strings-empty-unequal", { c with stringsEmptyUnequal := false })] else []) ++
  (if c.stringsCmpOutOfRange then [("strings-cmp-out-of-range", { c with stringsCmpOutOfRange := false })] else []) ++
  (if c.stringsNilPtrPanics then [("strings-nil-ptr-panics", { c with stringsNilPtrPanics := false })] else []) ++
  (if c.stringsNilSrcPanics then [("strings-nil-src-panics", { c with stringsNilSrcPanics := false })] else []) ++
  (if c.reflectIndexPanics then [("reflect-index-panics", { c with reflectIndexPanics := false })] else []) ++
  (if c.samapCapIsLen then [("samap-cap-is-len", { c with samapCapIsLen := false })] else []) ++
  (if c.samapNilPtrPanics then [("samap-nil-ptr-panics", { c with samapNilPtrPanics := false })] else []) ++
  (if c.staticResetTextLost then [("static-reset-text-lost", { c with staticResetTextLost := false })] else []) ++
  (if c.staticDeqAsymmetric then [("static-deq-asymmetric", { c with staticDeqAsymmetric := false })] else []) ++
  (if c.staticDeqDiverges then [("static-deq-diverges", { c with staticDeqDiverges := false })] else []) ++
  (if c.staticNilPtrPanics then [("static-nil-ptr-panics", { c with staticNilPtrPanics := false })] else [])

/-- `classify` for the hand-written runtime (defect switches in `LibCfg`). -/
def classifyL {α : Type} [BEq α] (st : St) (model : LibCfg → α) (accepts0 : α → Bool) (impl : α) (sh : α → String)
    (isPanic : α → Bool) (nilPanicClass : Option String := none) : String :=
  let cfg := st.lib
  let accepts (o : α) : Bool := if st.mode == "nopanic" then !isPanic o else accepts0 o
  let m := model cfg
  if st.mode == "fixedcheck" then
    (let mf := model LibCfg.fixed
     if (isPanic mf && nilPanicClass.isSome) || accepts0 mf then "agree" else "model-viol FIXED-MODEL " ++ sh mf) else
  if impl == m then
    -- nil pointers on the way (map[string]any trees): outside C18, a listed finding for C02
    if isPanic m && nilPanicClass.isSome then
      (if st.mode == "nopanic" then "known " ++ nilPanicClass.getD "" else "agree")
    else if accepts m then "agree"
    else
      let cls := (kfLibFlags cfg).filter (fun (_, c') => !(model c' == m))
      if !cls.isEmpty then "known " ++ ",".intercalate (cls.map (·.1))
      else if !(model LibCfg.fixed == m) then "known combination"
      else "model-viol " ++ sh m
  else
    if accepts impl then "dev-ok " ++ sh m
    else "dev-viol " ++ sh m

def isBRep (b : String) : Bool := b == "strings-b"

def stringsOpGet (st : St) (b : String) (head pathToks outToks : List String) : String :=
  match head, outToks with
  | [_, _, form, vid], mutF :: out =>
    (match st.vals[vid]?, parseForm form, parsePath pathToks, parseGetOut out with
     | some v, some f, some (p, _), some impl =>
       if mutF == "1" then "dev-viol read-operation-modified-its-argument" else
       let acc (o : GetOut) : Bool := match f with
         | .val | .ptr => stringsGetAccepts (isBRep b) v p o
         | .nilPtr => true
         | _ => o == .none
       classifyL st (fun c => stringsGet c (isBRep b) f v p) acc impl showGetOut (fun o => o == .panic)
     | _, _, _, _ => "skip unresolved-input")
  | _, _ => "skip bad-record"

def stringsOpCmp (st : St) (_b : String) (head pathToks argToks outToks : List String) : String :=
  match head, argToks, outToks with
  | [_, _, form, vid], [opTok, rightTok], [mutF, outTok] =>
    (match st.vals[vid]?, parseForm form, parsePath pathToks, opTok.toInt?, parseSeg rightTok, parseCmpOut outTok with
     | some v, some f, some (p, _), some op, some right, some impl =>
       if mutF == "1" then "dev-viol read-operation-modified-its-argument" else
       let acc (o : CmpOut) : Bool := match f with
         | .val | .ptr => stringsCmpAccepts v p op right o
         | .nilPtr => true
         | _ => o == .untouched
       classifyL st (fun c => stringsCmp c f v p op right) acc impl showCmpOut (fun o => o == .panic)
     | _, _, _, _, _, _ => "skip unresolved-input")
  | _, _, _ => "skip bad-record"

def stringsOpLC (st : St) (b : String) (head pathToks argToks outToks : List String) : String :=
  match head, argToks, outToks with
  | [_, _, form, vid], [fn], [mutF, outTok] =>
    (match st.vals[vid]?, parseForm form, parsePath pathToks, parseLcOut outTok with
     | some v, some f, some (p, _), some impl =>
       if mutF == "1" then "dev-viol read-operation-modified-its-argument" else
       let isCap := fn == "cap"
       let acc (o : LcOut) : Bool := match f with
         | .val | .ptr => stringsLcAccepts isCap (isBRep b) v p o
         | .nilPtr => true
         | _ => o == .untouched || o == .unsupported
       classifyL st (fun c => stringsLc c isCap (isBRep b) f v p) acc impl showLcOut (fun o => o == .panic)
     | _, _, _, _ => "skip unresolved-input")
  | _, _, _ => "skip bad-record"

def stringsOpSet (st : St) (b : String) (head pathToks srcToks outToks : List String) : String :=
  match head with
  | [_, _, form, vid] =>
    (match st.vals[vid]?, parseForm form, parsePath pathToks, parseSrc srcToks with
     | some v, some f, some (p, _), some src =>
       let impl : Option SetObs := match outToks with
         | ["panic"] => some .panic
         | "ok" :: rest => (parseVal rest).map fun (x, _) => SetObs.ok (dropCaps x)
         | "err" :: rest => (parseVal rest).map fun (x, _) => SetObs.err (dropCaps x)
         | _ => none
       (match impl with
        | some impl =>
          let acc (o : SetObs) : Bool := match f with
            | .val | .ptr =>
              (match o with
               | .ok r => stringsSetAccepts (isBRep b) v p src (.ok r)
               | .err r => stringsSetAccepts (isBRep b) v p src (.err r)
               | .panic => stringsSetAccepts (isBRep b) v p src .panic)
            | .nilPtr => true
            | _ => o == .ok (dropCaps v)
          classifyL st (fun c => setObsOf (stringsSet c (isBRep b) f v p src)) acc impl showSetObs
            (fun o => match o with | .panic => true | _ => false)
        | none => "skip unparsable-outcome")
     | _, _, _, _ => "skip unresolved-input")
  | _ => "skip bad-head"

def stringsOpLoop (st : St) (b : String) (parts : List (List String)) : String :=
  match parts with
  | [_, _, form, vid] :: pathToks :: [wk, ck] :: [fin, mutF, _cnt] :: groupToks =>
    (match st.vals[vid]?, parseForm form, parsePath pathToks with
     | some v, some f, some (p, _) =>
       if mutF == "1" then "dev-viol read-operation-modified-its-argument" else
       let sc : LoopScript := { wantKey := wk.toList.map (· == '1'), ctl := ck.toList.map (fun c => c.toNat - 48) }
       (match groupToks.mapM (parseObsGroup (.basic {})) with
        | some gs =>
          let impl : LoopObs := { groups := gs.map showObsGroup, fin := fin }
          let model (c : LibCfg) : LoopObs :=
            let r := stringsLoop c sc (isBRep b) f v p
            { groups := r.groups.map modelGroupStr, fin := finStr r.fin }
          -- C17: all elements in order with decimal keys (path empty); nothing for any other path
          let e : Node := if isBRep b then .slice { typn := "[]byte" } (.basic { typn := "byte", typu := "byte" })
                          else .basic { typn := "string", typu := "string" }
          let acc (o : LoopObs) : Bool :=
            if f == .nilPtr then true else
            if !(o == impl) then false else
            match f with
            | .val | .ptr =>
              if p.isEmpty then
                fin == "done" && gs.length == expectedCount sc (seqElems v).length && sliceGroupsOk sc e (seqElems v) gs 0
              else gs.isEmpty && fin == "done"
            | .nilPtr => true
            | _ => gs.isEmpty && fin == "done"
          classifyL st model acc impl (fun o => "; ".intercalate o.groups ++ " " ++ o.fin) (fun o => o.fin == "panic")
        | none => "skip unparsable-outcome")
     | _, _, _ => "skip unresolved-input")
  | _ => "skip bad-record"

/-- D2 <tidA> <tidB> <fl> <fr> <va> <vb> | <out(a,b)> <out(b,a)> <mut> -/
def stringsOpDeq (st : St) (head outToks : List String) : String :=
  match head, outToks with
  | [_, _, _, fl, fr, va, vb], [oab, oba, mutF] =>
    (match st.vals[va]?, st.vals[vb]?, parseForm fl, parseForm fr, parseDeqOut oab, parseDeqOut oba with
     | some a, some b, some fl, some fr, some iab, some iba =>
       if mutF == "1" then "dev-viol read-operation-modified-its-argument" else
       let isSeq (f : Form) : Bool := f == .val || f == .ptr
       let acc (o : DeqOut × DeqOut) : Bool :=
         if isSeq fl && isSeq fr then stringsDeqAccepts a b o.1 && stringsDeqAccepts b a o.2
         else if fl == .nilPtr || fr == .nilPtr then true
         else o.1 == .f && o.2 == .f
       classifyL st (fun c => (stringsDeq c fl fr a b, stringsDeq c fr fl b a)) acc (iab, iba)
         (fun o => showDeqOut o.1 ++ "," ++ showDeqOut o.2) (fun o => o.1 == .panic || o.2 == .panic)
     | _, _, _, _, _, _ => "skip unresolved-input")
  | _, _ => "skip bad-record"

/-- CT for strings: CT <tidSrc> <fs> <fd> <vsrc> <vdst> | <dst builtin> | <obs> -/
def stringsOpCopyTo (st : St) (head clsToks outToks : List String) : String :=
  match head, clsToks with
  | [_, _, fs, fd, vs, vd], [dstB] =>
    (match st.vals[vs]?, st.vals[vd]?, parseForm fs, parseForm fd with
     | some src, some dst, some fs, some fd =>
       (match parseCpObs (.basic {}) outToks with
        | some impl =>
          let obs (o : CopyOut) : CpObs := match o with
            | .ok v s => .ok s "-" true (dropCaps v)
            | .panic => .other "panic"
            | .unsupported => .other "unsupported"
            | .mustPointer => .other "mustpointer"
          let impl' : CpObs := match impl with | .ok s _ m v => .ok s "-" m v | x => x
          let acc (o : CpObs) : Bool :=
            match fs, fd, o with
            | .val, .ptr, .ok s _ m v | .ptr, .ptr, .ok s _ m v =>
              s == 0 && m && (seqElems v).map elemText == (seqElems dst).map elemText ++ (seqElems src).map elemText
            | _, .val, .other t => t == "mustpointer" || t == "unsupported"
            | .nilPtr, _, _ | _, .nilPtr, _ => true
            | _, _, .other t => t == "unsupported"
            | _, _, _ => false
          classifyL st (fun c => obs (stringsCopyTo c (isBRep dstB) fs fd src dst)) acc impl' showCpObs cpIsPanic
        | none => "skip unparsable-outcome")
     | _, _, _, _ => "skip unresolved-input")
  | _, _ => "skip bad-record"

def stringsOpReset (st : St) (head outToks : List String) : String :=
  match head with
  | [_, _, form, vid] =>
    (match st.vals[vid]?, parseForm form with
     | some v, some f =>
       let impl : Option CpObs := match outToks with
         | "ok" :: rest => (parseVal rest).map fun (x, _) => CpObs.ok 0 "-" true (dropCaps x)
         | [t] => some (.other t)
         | _ => none
       (match impl with
        | some impl =>
          let acc (o : CpObs) : Bool := match f, o with
            | .val, .other t => t == "mustpointer"
            | .ptr, .ok _ _ _ x => (seqElems x).isEmpty
            | .nilPtr, _ => true
            | _, .ok _ _ _ x => x == dropCaps v
            | _, .other t => t == "unsupported"
          classifyL st (fun c => resetObsOf (stringsReset c f v)) acc impl showCpObs cpIsPanic
        | none => "skip unparsable-outcome")
     | _, _ => "skip unresolved-input")
  | _ => "skip bad-head"

/-! ### StaticInspector -/

def parseSDeq : String → Option SDeq
  | "t" => some .t | "f" => some .f | "panic" => some .panic | "diverge" => some .diverge | _ => none
def showSDeq : SDeq → String
  | .t => "t" | .f => "f" | .panic => "panic" | .diverge => "diverge"
instance : BEq SDeq := ⟨fun a b => decide (a = b)⟩

/-- XC | <src> | <op> <right> | <out> -/
def staticOpCmp (st : St) (srcToks argToks outToks : List String) : String :=
  match argToks, outToks with
  | [opTok, rightTok], [outTok] =>
    (match parseSrc srcToks, opTok.toInt?, parseSeg rightTok, parseCmpOut outTok with
     | some s, some op, some right, some impl =>
       if right.pf == .inexact && s.kind.family == .float then "skip inexact-operand" else
       classifyL st (fun c => staticCmp c s op right) (staticCmpAccepts s op right) impl showCmpOut (fun o => o == .panic)
     | _, _, _, _ => "skip unresolved-input")
  | _, _ => "skip bad-record"

def parseFClass (t : String) : Option FClass :=
  if t == "nan" then some .nan else if t == "pinf" then some .pinf else if t == "ninf" then some .ninf
  else if t.startsWith "f" then ((t.drop 1).toString.toInt?).map .fin else none

/-- XF | <kind> <form> <left class> | <op> <right class, or err> | <out> — Compare on a float source with the IEEE
special values (NaN, ±Inf), which the value model proper cannot name: `staticCmpSpecial`. -/
def staticOpCmpSpecial (st : St) (srcToks argToks outToks : List String) : String :=
  match srcToks, argToks, outToks with
  | [_, _, lTok], [opTok, rTok], [outTok] =>
    (match parseFClass lTok, opTok.toInt?, parseCmpOut outTok with
     | some l, some op, some impl =>
       let r : Option (Option FClass) := if rTok == "err" then some none else (parseFClass rTok).map some
       (match r with
        | some r =>
          let m := staticCmpSpecial op l r
          if st.mode == "nopanic" then (if impl == .panic then "dev-viol " ++ showCmpOut m else "agree")
          else if impl == m then "agree" else "dev-viol " ++ showCmpOut m
        | none => "skip unresolved-input")
     | _, _, _ => "skip unresolved-input")
  | _, _, _ => "skip bad-record"

/-- FC <tid> | <op> <left class> <right class, or err> | <out> — generated Compare on a non-pointer float element
holding an IEEE special value: `genCmpSpecial`. -/
def genOpCmpSpecial (st : St) (argToks outToks : List String) : String :=
  match argToks, outToks with
  | [opTok, lTok, rTok], [outTok] =>
    (match parseFClass lTok, opTok.toInt?, parseCmpOut outTok with
     | some l, some op, some impl =>
       let r : Option (Option FClass) := if rTok == "err" then some none else (parseFClass rTok).map some
       (match r with
        | some r =>
          let m := genCmpSpecial op l r
          if st.mode == "nopanic" then (if impl == .panic then "dev-viol " ++ showCmpOut m else "agree")
          else if impl == m then "agree" else "dev-viol " ++ showCmpOut m
        | none => "skip unresolved-input")
     | _, _, _ => "skip unresolved-input")
  | _, _ => "skip bad-record"

/-- XD | <src l> | <src r> | <out(l,r)> <out(r,l)> -/
def staticOpDeq (st : St) (lToks rToks outToks : List String) : String :=
  match outToks with
  | [olr, orl] =>
    (match parseSrc lToks, parseSrc rToks, parseSDeq olr, parseSDeq orl with
     | some l, some r, some ilr, some irl =>
       classifyL st (fun c => (staticDeq c l r, staticDeq c r l)) (fun o => staticDeqAccepts l r o.1 o.2) (ilr, irl)
         (fun o => showSDeq o.1 ++ "," ++ showSDeq o.2)
         (fun o => o.1 == .panic || o.2 == .panic || o.1 == .diverge || o.2 == .diverge)
     | _, _, _, _ => "skip unresolved-input")
  | _ => "skip bad-record"

/-- XL | <src> | len|cap | <out> -/
def staticOpLC (st : St) (srcToks fnToks outToks : List String) : String :=
  match fnToks, outToks with
  | [fn], [outTok] =>
    (match parseSrc srcToks, parseLcOut outTok with
     | some s, some impl =>
       if !s.wt then "dev-ok hypothesis Src.wt of C16.lc_correct does not hold for this source" else
       classifyL st (fun c => staticLc c (fn == "cap") s) (staticLcAccepts (fn == "cap") s) impl showLcOut (fun o => o == .panic)
     | _, _ => "skip unresolved-input")
  | _, _ => "skip bad-record"

/-- XG | <src> | same1 | same0 | err | panic -/
def staticOpGet (st : St) (_srcToks outToks : List String) : String :=
  match outToks with
  | [o] =>
    classifyL st (fun _ => "same1") (fun x => x == "same1") o id (fun x => x == "panic")
  | _ => "skip bad-record"

instance : BEq SObs := ⟨fun a b => a.tag == b.tag && (a.tag != "ok" || (a.kind == b.kind && a.shared == b.shared && valContentEq a.v b.v))⟩
def showSObs (o : SObs) : String := if o.tag == "ok" then s!"ok {o.kind} {o.shared} " ++ showVal o.v else o.tag

def parseSObs : List String → Option SObs
  | ["ok", k, sh, vtok] => do
    let (v, _) ← parseVal [vtok]
    pure { tag := "ok", kind := k, shared := (← sh.toNat?), v := v }
  | [t] => some { tag := t }
  | _ => none

/-- XP | <src> | ok <kind> <shared> <val> | unsupported | panic -/
def staticOpCopy (st : St) (srcToks outToks : List String) : String :=
  match parseSrc srcToks, parseSObs outToks with
  | some s, some impl =>
    classifyL st (fun c => sobsOf (staticCopy c s)) (staticCopyAccepts s) impl showSObs (fun o => o.tag == "panic")
  | _, _ => "skip unresolved-input"

/-- XT | <src> | <dst kind> <dst form> | ok <kind> <shared> <val> | okvalue | mustpointer | unsupported | panic -/
def staticOpCopyTo (st : St) (srcToks dstToks outToks : List String) : String :=
  match dstToks with
  | [dk, dform] =>
    (match parseSrc srcToks, parseSObs outToks with
     | some s, some impl =>
       let dkind := DynKind.ofName (if dk == "bytes" then "[]byte" else dk)
       if !dformOK dform then "dev-ok hypothesis dformOK of C16.copyTo_correct does not hold for this record" else
       classifyL st (fun c => staticCopyToObs c s dkind dk dform) (staticCopyToAccepts s dkind dform) impl showSObs (fun o => o.tag == "panic")
     | _, _ => "skip unresolved-input")
  | _ => "skip bad-record"

/-- XR | <src> | ok <val> | ok - | unsupported | panic -/
def staticOpReset (st : St) (srcToks outToks : List String) : String :=
  match parseSrc srcToks with
  | some s =>
    let impl : Option SObs := match outToks with
      | ["ok", "-"] => some { tag := "okvalue" }
      | ["ok", vtok] => (parseVal [vtok]).map fun (v, _) => { tag := "ok", v := v }
      | [t] => some { tag := t }
      | _ => none
    (match impl with
     | some impl =>
       let norm (o : SObs) : SObs := if o.tag == "ok" && s.v.isNilPtr then { tag := "okvalue" } else o
       classifyL st (fun c => staticResetObs c s) (staticResetAccepts s) (norm impl) showSObs (fun o => o.tag == "panic")
     | none => "skip unparsable-outcome")
  | none => "skip unresolved-input"

/-! ### ReflectInspector -/

/-- GR <tid> <form> <vid> | <path> | <mut> <out> — ReflectInspector.Get on a value of a generated type. There is no
correctness property for this inspector: the record is judged for panics (C02) and tied to the model. -/
def opReflectGet (st : St) (head pathToks outToks : List String) : String :=
  match head with
  | [_, tid, form, vid] =>
    (match st.types[tid]?, st.vals[vid]?, parseForm form, parsePath pathToks with
     | some n, some v, some f, some (p, _) =>
       (match outToks with
        | mutF :: out =>
          if mutF == "1" then "dev-viol read-operation-modified-its-argument" else
          (match parseGetOut out with
           | some impl =>
             if !(f == .val || f == .ptr || f == .ptrptr || f == .nilPtr) then "skip form-not-modelled" else
             let toG : RGet → Option GetOut := fun r => match r with
               | .none => some .none | .some s x => some (.some s x) | .panic => some .panic | .unknown => none
             let keys := p.map (·.text)
             (match toG (reflectGetM st.lib n (f == .nilPtr) v keys) with
              | none => "skip unmodelled-map-key"
              | some _ =>
                classifyL st (fun c => (toG (reflectGetM c n (f == .nilPtr) v keys)).getD .none)
                  (fun o => !(o == .panic)) impl showGetOut (fun o => o == .panic))
           | none => "skip unparsable-outcome")
        | [] => "skip no-outcome")
     | _, _, _, _ => "skip unresolved-input")
  | _ => "skip bad-head"

/-! ### StringAnyMapInspector -/

def srcOfLeaf (shape : String) (toks : List String) : Option (Src × List String) :=
  let isPtr := shape.startsWith "*"
  let kname := if isPtr then (shape.drop 1).toString else shape
  let kname := if kname == "Y" then "[]byte" else kname
  let k := DynKind.ofName kname
  if k == .foreign then none else
  if isPtr then
    match toks with
    | "Pn" :: rest => some ({ kind := k, isPtr := true, v := .nilptr }, rest)
    | "P" :: t :: rest => (parseVal [t]).map fun (v, _) => ({ kind := k, isPtr := true, v := v }, rest)
    | _ => none
  else
    match toks with
    | t :: rest => (parseVal [t]).map fun (v, _) => ({ kind := k, isPtr := false, v := v }, rest)
    | [] => none

mutual
/-- An `any` as the harness prints it: `An` | `A <shape> <value…>`. -/
partial def parseJ : List String → Option (JVal × List String)
  | "An" :: rest => some (.nil, rest)
  | "A" :: shape :: rest =>
    if shape == "M[string]any" then (parseJMap 0 rest)
    else if shape == "*M[string]any" then
      (match rest with
       | "Pn" :: r => some (.map 1 1 true [] [], r)
       | "P" :: r => parseJMap 1 r
       | _ => none)
    else if shape == "**M[string]any" then
      (match rest with
       | "Pn" :: r => some (.map 2 1 true [] [], r)
       | "P" :: "Pn" :: r => some (.map 2 2 true [] [], r)
       | "P" :: "P" :: r => parseJMap 2 r
       | _ => none)
    else
      (match srcOfLeaf shape rest with
       | some (s, r) => some (.leaf s, r)
       | none =>
         -- anything else: a single-token value by construction of the harness
         (match rest with
          | _ :: r => some (.other, r)
          | [] => none))
  | _ => none
partial def parseJMap (hold : Nat) : List String → Option (JVal × List String)
  | "Mn" :: rest => some (.map hold 0 true [] [], rest)
  | tok :: rest =>
    if !tok.startsWith "M" then none else do
    let n ← (tok.drop 1).toString.toNat?
    let rec go (k : Nat) (ks : List Bytes) (vs : List JVal) (toks : List String) : Option (List Bytes × List JVal × List String) :=
      if k == 0 then some (ks.reverse, vs.reverse, toks) else
      match toks with
      | kt :: toks' => do
        let key ← bytesOfHex (kt.drop 1).toString
        let (v, toks'') ← parseJ toks'
        go (k - 1) (key :: ks) (v :: vs) toks''
      | [] => none
    let (ks, vs, rest') ← go n [] [] rest
    pure (.map hold 0 false ks vs, rest')
  | [] => none
end

mutual
partial def showJ : JVal → String
  | .nil => "nil"
  | .other => "other"
  | .leaf s => (if s.isPtr then "*" else "") ++ s.kind.name ++ ":" ++ showVal s.v
  | .map h n mn ks vs => s!"map{h}/{n}/{if mn then 1 else 0}" ++ "{" ++ " ".intercalate ((ks.zip vs).map fun (k, v) => hexOfBytes k ++ "=" ++ showJ v) ++ "}"
end

/-- The root as an `any` in holding form `f` around the parsed map. -/
def rootJ (f : Form) (m : JVal) : JVal :=
  match f, m with
  | .val, .map _ _ mn ks vs => .map 0 0 mn ks vs
  | .ptr, .map _ _ mn ks vs => .map 1 0 mn ks vs
  | .ptrptr, .map _ _ mn ks vs => .map 2 0 mn ks vs
  | .nilPtr, _ => .map 1 1 true [] []
  | .ptrNilPtr, _ => .map 2 2 true [] []
  | .untypedNil, _ => .nil
  | _, _ => .other

def parseKeys : List String → Option (List Bytes)
  | n :: rest => do
    let cnt ← n.toNat?
    let ks ← (rest.take cnt).mapM fun t => bytesOfHex (t.drop 1).toString
    pure ks
  | [] => none

structure StJ where
  trees : Std.HashMap String JVal := {}

/-- JG <form> <vid> | <keys> | <mut> nilany | node <any> | unsupported | panic -/
def samapOpGet (st : St) (trees : Std.HashMap String JVal) (head pathToks outToks : List String) : String :=
  match head, outToks with
  | [_, form, vid], mutF :: out =>
    (match trees[vid]?, parseForm form, parseKeys pathToks with
     | some m, some f, some p =>
       if mutF == "1" then "dev-viol read-operation-modified-its-argument" else
       let j := rootJ f m
       let impl : Option JGet := match out with
         | ["nilany"] => some .none
         | ["unsupported"] => some .unsupported
         | ["panic"] => some .panic
         | "node" :: rest => (parseJ rest).map fun (x, _) => JGet.node x
         | _ => none
       let norm (o : JGet) : JGet := match o with | .node .nil => .none | x => x
       let beq (a b : JGet) : Bool := match norm a, norm b with
         | .node x, .node y => jeq x y
         | .none, .none | .unsupported, .unsupported | .panic, .panic => true
         | _, _ => false
       let sh (o : JGet) : String := match o with
         | .node x => "node " ++ showJ x | .none => "none" | .unsupported => "unsupported" | .panic => "panic"
       (match impl with
        | some impl =>
          let _ : BEq JGet := ⟨beq⟩
          let acc (o : JGet) : Bool :=
            match jnav j p with
            | .found .nil => (match norm o with | .none => true | _ => false)
            | _ => samapGetAccepts j p o
          classifyL st (fun c => samapGet c j p) acc impl sh (fun o => match o with | .panic => true | _ => false) (some "samap-nil-ptr-panics")
        | none => "skip unparsable-outcome")
     | _, _, _ => "skip unresolved-input")
  | _, _ => "skip bad-record"

instance : BEq JLc := ⟨fun a b => decide (a = b)⟩
def showJLc : JLc → String
  | .untouched => "untouched" | .val n => s!"val{n}" | .unsupported => "unsupported" | .panic => "panic"

def samapOpLC (st : St) (trees : Std.HashMap String JVal) (head pathToks fnToks outToks : List String) : String :=
  match head, fnToks, outToks with
  | [_, form, vid], [fn], [outTok] =>
    (match trees[vid]?, parseForm form, parseKeys pathToks, parseLcOut outTok with
     | some m, some f, some p, some impl0 =>
       let j := rootJ f m
       let impl : JLc := match impl0 with
         | .untouched => .untouched | .val n => .val n | .unsupported => .unsupported | .panic => .panic | .err => .unsupported
       let isCap := fn == "cap"
       classifyL st (fun c => if isCap then samapCap c j p else samapLen c j p) (samapLcAccepts isCap j p) impl showJLc (fun o => o == .panic) (some "samap-nil-ptr-panics")
     | _, _, _, _ => "skip unresolved-input")
  | _, _, _ => "skip bad-record"

def samapOpCmp (st : St) (trees : Std.HashMap String JVal) (head pathToks argToks outToks : List String) : String :=
  match head, argToks, outToks with
  | [_, form, vid], [opTok, rightTok], [outTok, e] =>
    (match trees[vid]?, parseForm form, parseKeys pathToks, opTok.toInt?, parseSeg rightTok, parseCmpOut outTok with
     | some m, some f, some p, some op, some right, some impl =>
       if right.pf == .inexact then "skip inexact-operand" else
       let j := rootJ f m
       let _ : BEq (CmpOut × Bool) := ⟨fun a b => a.1 == b.1 && a.2 == b.2⟩
       classifyL st (fun c => samapCmp c j p op right) (samapCmpAccepts j p op right) (impl, e == "1")
         (fun o => showCmpOut o.1 ++ (if o.2 then " unsupported" else "")) (fun o => o.1 == .panic) (some "samap-nil-ptr-panics")
     | _, _, _, _, _, _ => "skip unresolved-input")
  | _, _, _ => "skip bad-record"

/-- The map a root `any` leads to, re-read from the harness' root tokens (always printed as a plain map). -/
def samapOpSet (st : St) (trees : Std.HashMap String JVal) (head pathToks srcToks outToks : List String) : String :=
  match head with
  | [_, form, vid] =>
    (match trees[vid]?, parseForm form, parseKeys pathToks, parseSrc srcToks with
     | some m, some f, some p, some src =>
       let j := rootJ f m
       let reroot (x : JVal) : JVal := match x, j with
         | .map _ _ mn ks vs, .map h n _ _ _ => .map h n mn ks vs
         | x, _ => x
       let impl : Option JSet := match outToks with
         | ["panic"] => some .panic
         | "ok" :: rest => (parseJMap 0 rest).map fun (x, _) => JSet.ok (reroot x)
         | "unsupported" :: rest => (parseJMap 0 rest).map fun (x, _) => JSet.unsupported (reroot x)
         | _ => none
       let beq (a b : JSet) : Bool := match a, b with
         | .ok x, .ok y => jeq x y
         | .unsupported x, .unsupported y => jeq x y
         | .panic, .panic => true
         | _, _ => false
       let sh (o : JSet) : String := match o with
         | .ok x => "ok " ++ showJ x | .unsupported x => "unsupported " ++ showJ x | .panic => "panic"
       (match impl with
        | some impl =>
          let _ : BEq JSet := ⟨beq⟩
          -- nil-pointer and foreign roots: the model's root is not a map; compare on the outcome class only
          -- a nil-pointer root: dereferenced (panic); repaired, it is a nil map: nothing is set
          let model (c : LibCfg) : JSet := match j with
            | .map _ 0 _ _ _ => samapSet c j p src
            | .map _ _ _ _ _ => if p.isEmpty || !c.samapNilPtrPanics then .ok (reroot m) else .panic
            | _ => if p.isEmpty then .ok (reroot m) else .unsupported (reroot m)
          let acc (o : JSet) : Bool := match j with
            | .map _ 0 _ _ _ => samapSetAccepts j p src o
            | .map _ _ _ _ _ => true
            | _ => (match o with | .unsupported x | .ok x => jeq x (reroot m) | .panic => false)
          let fix (o : JSet) : JSet := match j, o with
            | .map _ 0 _ _ _, x => x
            | _, .ok _ => .ok (reroot m)
            | _, .unsupported _ => .unsupported (reroot m)
            | _, x => x
          classifyL st (fun c => fix (model c)) acc (fix impl) sh (fun o => match o with | .panic => true | _ => false)
            (some "samap-nil-ptr-panics")   -- nil roots / subtrees, and the inspector's own `*x` of a nil *string / *[]byte value
        | none => "skip unparsable-outcome")
     | _, _, _, _ => "skip unresolved-input")
  | _ => "skip bad-head"

/-- JP <form> <vid> | copy|copyto | ok <shared> <same> <map> | unsupported | panic -/
def samapOpCopy (st : St) (trees : Std.HashMap String JVal) (head viaToks outToks : List String) : String :=
  match head, viaToks with
  | [_, form, vid], [via] =>
    (match trees[vid]?, parseForm form with
     | some m, some f =>
       let j := rootJ f m
       let impl : Option (String × Nat × Option JVal) := match outToks with
         | "ok" :: sh :: same :: rest => (parseJMap 0 rest).bind fun (x, _) => sh.toNat?.map fun s => ((if same == "1" then "ok" else "ok-src-changed"), s, some x)
         | [t] => some (t, 0, none)
         | _ => none
       -- a nil-pointer root: dereferenced (panic); repaired, it is a nil map: nothing is copied
       let model (cfg : LibCfg) : String × Nat × Option JVal :=
         match j with
         | .map _ n mn ks vs =>
           if n != 0 && cfg.samapNilPtrPanics then ("panic", 0, none) else
           if mn || n != 0 then ("ok", 0, some (.map 0 0 false (if via == "copy" then [] else [strBytes "stale"]) (if via == "copy" then [] else [.leaf { kind := .int, v := .int 1 }])))
           else (match samapCpy cfg (.map 0 0 false ks vs) with
                 | some (c, s) => ("ok", s, some c)
                 | none => ("panic", 0, none))
         | _ => ("unsupported", 0, none)
       let _ : BEq (String × Nat × Option JVal) := ⟨fun a b => a.1 == b.1 && a.2.1 == b.2.1 && (match a.2.2, b.2.2 with
         | some x, some y => jeq x y | none, none => true | _, _ => false)⟩
       let acc (o : String × Nat × Option JVal) : Bool := match j, o with
         -- equal tree (a nil pointer to a map inside it: a pointer to an empty map, `jCopyNorm`), nothing (in the quantified trees) shared
         | .map _ 0 false ks vs, ("ok", s, some c) => s ≤ ptrLeafCount (.map 0 0 false ks vs) && jeq (jCopyNorm (.map 0 0 false ks vs)) c
         | .map _ 0 true _ _, ("ok", _, _) => true
         | .map _ 0 _ _ _, _ => false
         | .map _ _ _ _ _, _ => true
         | _, (t, _, _) => t == "unsupported"
       (match impl with
        | some impl => classifyL st model acc impl (fun o => o.1 ++ s!" {o.2.1} " ++ (o.2.2.map showJ).getD "-") (fun o => o.1 == "panic") (some "samap-nil-ptr-panics")
        | none => "skip unparsable-outcome")
     | _, _ => "skip unresolved-input")
  | _, _ => "skip bad-record"

/-- JR <form> <vid> | ok <map> | panic -/
def samapOpReset (st : St) (trees : Std.HashMap String JVal) (head outToks : List String) : String :=
  match head with
  | [_, form, vid] =>
    (match trees[vid]?, parseForm form with
     | some m, some f =>
       let impl : Option (Option JVal) := match outToks with
         | ["panic"] => some none
         | "ok" :: rest => (parseJMap 0 rest).map fun (x, _) => some x
         | _ => none
       -- a nil-pointer root: dereferenced (panic); repaired, Reset does nothing (`samapReset`, Lib/StrAnyMap.lean)
       let model (c : LibCfg) : Option JVal := samapReset c f m
       let _ : BEq (Option JVal) := ⟨fun a b => match a, b with | some x, some y => jeq x y | none, none => true | _, _ => false⟩
       let acc (o : Option JVal) : Bool := match f, o with
         | .ptr, some (.map _ _ _ ks _) | .ptrptr, some (.map _ _ _ ks _) => ks.isEmpty
         | .nilPtr, _ | .ptrNilPtr, _ => true
         | _, some x => jeq x (match m with | .map _ _ mn ks vs => .map 0 0 mn ks vs | x => x)
         | _, none => false
       (match impl with
        | some impl => classifyL st model acc impl (fun o => (o.map showJ).getD "panic") (fun o => o.isNone) (some "samap-nil-ptr-panics")
        | none => "skip unparsable-outcome")
     | _, _ => "skip unresolved-input")
  | _ => "skip bad-head"

/-- JO <form> <vid> | <keys> | <wantkey> <ctl> | <fin> <n> | group … (order is free: compared as multisets) -/
def samapOpLoop (st : St) (trees : Std.HashMap String JVal) (parts : List (List String)) : String :=
  match parts with
  | [_, form, vid] :: pathToks :: [wk, ck] :: [fin, _cnt] :: groupToks =>
    (match trees[vid]?, parseForm form, parseKeys pathToks with
     | some m, some f, some p =>
       let j := rootJ f m
       let sc : LoopScript := { wantKey := [wk == "1"], ctl := ck.toList.map (fun c => c.toNat - 48) }
       -- the node the path leads to
       -- a nil pointer to a map: dereferenced (panic); repaired, it is a nil map: nothing to iterate over
       -- (`samapLoop`, Lib/StrAnyMap.lean)
       let target : Option (List Bytes × List JVal) × String :=
         match samapLoop st.lib j p with
         | .iterate ks vs => (some (ks, vs), "done")
         | .nothing => (none, "done")
         | .unsupported => (none, "unsupported")
         | .panic => (none, "panic")
       let n := match target.1 with | some (ks, _) => ks.length | none => 0
       let want := expectedCount sc n
       -- each observed group: key text (if wanted) names an entry; every entry at most once
       let keysSeen : List (Option Bytes) := groupToks.map fun g => match g with
         | k :: _ => if k == "-" then none else (parseSeg k).map (·.text)
         | [] => none
       let okGroups : Bool := match target.1 with
         | some (ks, _) =>
           groupToks.length == want &&
           (if wk == "1" then keysSeen.all (fun k => match k with | some t => ks.contains t | none => false) &&
                              (keysSeen.eraseDups.length == keysSeen.length)
            else keysSeen.all (·.isNone)) &&
           groupToks.all (fun g => g.getD 1 "" == "static")
         | none => groupToks.isEmpty
       let agree := okGroups && fin == target.2
       if st.mode == "nopanic" then (if fin == "panic" then (if target.2 == "panic" then "known samap-nil-ptr-panics" else "dev-viol panic") else "agree")
       else if agree then
         "agree"
       else "dev-viol loop " ++ fin ++ s!" groups={groupToks.length} expected={want} {target.2}"
     | _, _, _ => "skip unresolved-input")
  | _ => "skip bad-record"

/-! ### Accumulating buffer (C07) -/

def parseBufOp : List String → Option BufOp
  | ["bz", h] => (bytesOfHex (h.drop 1).toString).map BufOp.bufferize
  | ["bs", h] => (bytesOfHex (h.drop 1).toString).map BufOp.bufferizeStr
  | ["ab", h, s] => (bytesOfHex (h.drop 1).toString).map fun r => BufOp.assignBuf r (s == "1")
  | ["ad", h, r] => do pure (.assignBufTo (← h.toNat?) (← bytesOfHex (r.drop 1).toString))
  | ["rs"] => some .reset
  | ["ow", h, i, b] => do pure (.overwrite (← h.toNat?) (← i.toNat?) (UInt8.ofNat (← b.toNat?)))
  | ["ap", h, q] => do pure (.appendTo (← h.toNat?) (← bytesOfHex (q.drop 1).toString))
  | ["nb", h, r] => do pure (.setNoBuf (← h.toNat?) (← bytesOfHex (r.drop 1).toString))
  | ["nop"] => some (.overwrite 1000000 0 0)
  | _ => none

/-- Observation after a step: contents and capacities of all watched handles. -/
def parseBufObs : List String → Option (Nat × List (Option (Nat × Bytes)))
  | nc :: rest => do
    let n ← nc.toNat?
    let hs ← rest.mapM fun t =>
      if t == "-" then some none else
      match t.splitOn ":" with
      | [c, h] => do pure (some ((← c.toNat?), (← bytesOfHex h)))
      | _ => none
    pure (n, hs)
  | [] => none

-- `bufHistoryViolation` (what C07 demands of a history), `bufObs`, `bufRunObs`: Spec/BufSpec.lean

/-- BH <initcap> | op ; op … | obs ; obs … -/
def opBufferHistory (st : St) (parts : List (List String)) : String :=
  match parts with
  | [[_, ic], opToks, obsToks] =>
    let splitSemi (l : List String) : List (List String) :=
      (" ".intercalate l).splitOn " ; " |>.map fun s => (s.splitOn " ").filter (· ≠ "")
    (match ic.toNat?, (splitSemi opToks).mapM parseBufOp, (splitSemi obsToks).mapM parseBufObs with
     | some initCap, some ops, some obs =>
       let run (cfg : BufCfg) : List (List (Option (Nat × Bytes))) :=
         bufRunObs cfg (initBuf initCap) (ops.zip (obs.map (·.1)))
       let implObs := obs.map (·.2)
       -- hypothesis of C07.history_accepted: client writes go through live (not stale) handles only
       if !runLive { openCap := false } (initBuf initCap) (ops.zip (obs.map (·.1))) then
         "dev-ok hypothesis runLive of history_accepted does not hold for this history" else
       let eqH (p q : Option (Nat × Bytes)) : Bool := match p, q with
         | none, none => true
         | some p, some q => p.2 == q.2 && (p.2.isEmpty || p.1 == q.1)
         | _, _ => false
       let _ : BEq (List (List (Option (Nat × Bytes)))) := ⟨fun a b => a.length == b.length && (a.zip b).all fun (x, y) =>
         x.length == y.length && (x.zip y).all fun (p, q) => eqH p q⟩
       let sh (o : List (List (Option (Nat × Bytes)))) : String :=
         " ; ".intercalate (o.map fun step => " ".intercalate (step.map fun h => match h with | some (c, b) => s!"{c}:" ++ hexOfBytes b | none => "-"))
       let model (open_ : Bool) := run { openCap := open_ }
       let m := model st.bufOpen
       let accepted (o : List (List (Option (Nat × Bytes)))) : Bool := (bufHistoryViolation ops o).isNone
       if implObs == m then
         if accepted m then "agree"
         else if st.bufOpen && accepted (model false) then "known buffer-open-capacity"
         else "model-viol " ++ sh m
       else if accepted implObs then "dev-ok " ++ sh m else "dev-viol " ++ sh m
     | _, _, _ => "skip unresolved-input")
  | _ => "skip bad-record"
