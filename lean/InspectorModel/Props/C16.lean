/-
Props/C16.lean — property theorems for C16 (static inspector).

For the repaired runtime (`LibCfg.fixed`) every acceptance relation the driver applies to the StaticInspector
model (`Driver/LibOps.lean staticOp*`) holds for all operands:
  `cmp_correct`     Compare      staticCmpAccepts     (no hypothesis)
  `deq_correct`     DeepEqual    staticDeqAccepts     (no hypothesis; both argument orders)
  `deq_symmetric`, `deq_total`   symmetry and "true or false, never panic / divergence" for ALL operands,
                                 typed-nil pointers included (more than the relation asks)
  `lc_correct`      Length/Cap   staticLcAccepts      (hypothesis `textSrcTyped`, implied by `Src.wt`)
  `copy_correct`    Copy         staticCopyAccepts    (no hypothesis)
  `copyTo_correct`  CopyTo       staticCopyToAccepts  (hypothesis `dformOK`: the destination form token is v / p / pn)
  `reset_correct`   Reset        staticResetAccepts   (no hypothesis)
Get has no model function: the driver's model of Get is the constant observation "same1".
The model of the current tree is rejected on `static-deq-asymmetric`, `static-deq-diverges`,
`static-reset-text-lost` (`repo_not_correct_*`).
-/
import InspectorModel.Proofs.C16
namespace Inspector.C16

/-- An operand of any other type compares as `false`. -/
theorem cmp_foreign (c : LibCfg) (s : Src) (op : Op) (r : Seg) (h : s.kind = .foreign) :
    staticCmp c s op r = .set false := by
  simp [staticCmp, h]

/-- Compare equals the native comparison with the operand parsed for the kind. -/
theorem cmp_correct (s : Src) (op : Op) (right : Seg) :
    staticCmpAccepts s op right (staticCmp LibCfg.fixed s op right) = true :=
  staticCmp_correct s op right

/-- DeepEqual, as the driver judges it (both argument orders observed): same answer in both orders, no
abort, false for an operand of any other type, within one family true exactly for equal values. -/
theorem deq_correct (l r : Src) :
    staticDeqAccepts l r (staticDeq LibCfg.fixed l r) (staticDeq LibCfg.fixed r l) = true :=
  staticDeq_correct l r

/-- DeepEqual gives the same answer in both argument orders — all operands, typed-nil pointers included. -/
theorem deq_symmetric (l r : Src) : staticDeq LibCfg.fixed l r = staticDeq LibCfg.fixed r l :=
  staticDeq_symm l r

/-- DeepEqual answers true or false — it never diverges and never panics, for all operands. -/
theorem deq_total (l r : Src) : staticDeq LibCfg.fixed l r = .t ∨ staticDeq LibCfg.fixed l r = .f :=
  staticDeq_tf l r

theorem deq_never_diverges (l r : Src) : staticDeq LibCfg.fixed l r ≠ .diverge := by
  rcases staticDeq_tf l r with h | h <;> simp [h]

/-- Within one family, DeepEqual is true exactly for equal values (floats: within the tolerance; text: strings
and byte slices interchangeable by content). -/
theorem deq_same_family (l r : Src) (b : Bool) (hl : l.v.isNilPtr = false) (hr : r.v.isNilPtr = false)
    (h : staticSameFamilyEq l r = some b) :
    staticDeq LibCfg.fixed l r = if b then .t else .f := by
  rw [staticDeq_nf l r hl hr]
  exact deqNF_sameFamily l r b h

/-- Length / Capacity. -/
theorem lc_correct (isCap : Bool) (s : Src) (hs : textSrcTyped s = true) :
    staticLcAccepts isCap s (staticLc LibCfg.fixed isCap s) = true :=
  staticLc_correct isCap s hs

theorem lc_correct_of_wt (isCap : Bool) (s : Src) (hs : s.wt = true) :
    staticLcAccepts isCap s (staticLc LibCfg.fixed isCap s) = true :=
  staticLc_correct isCap s (textSrcTyped_of_wt s hs)

/-- Copy yields an equal value of the same kind sharing no bytes with the original. -/
theorem copy_correct (s : Src) : staticCopyAccepts s (sobsOf (staticCopy LibCfg.fixed s)) = true :=
  staticCopy_correct s

/-- CopyTo, for every destination kind, destination token `dk` and destination form v / p / pn. -/
theorem copyTo_correct (s : Src) (dkind : DynKind) (dk dform : String) (hd : dformOK dform = true) :
    staticCopyToAccepts s dkind dform (staticCopyToObs LibCfg.fixed s dkind dk dform) = true :=
  staticCopyTo_correct s dkind dk dform hd

/-- Reset through a pointer zeroes the target. -/
theorem reset_correct (s : Src) : staticResetAccepts s (staticResetObs LibCfg.fixed s) = true :=
  staticReset_correct s

section NonVacuity
def intS (i : Int) : Src := { kind := .int, v := .int i }
def f64S (fx : Int) : Src := { kind := .float64, v := .float fx }
def strS (t : String) (isPtr : Bool := false) : Src := { kind := .string, isPtr := isPtr, v := .str (strBytes t) }
def bytesS (t : String) : Src := { kind := .bytes, v := .bytes false (strBytes t) 8 }

example : (strS "ab").wt = true ∧ textSrcTyped (strS "ab") = true ∧ dformOK "p" = true := by decide
/-- 1 == 1.0 in both orders, 1 ≠ 1.5 in both orders, "ab" == []byte("ab"). -/
example : staticDeq LibCfg.fixed (intS 1) (f64S 1048576) = .t ∧ staticDeq LibCfg.fixed (f64S 1048576) (intS 1) = .t ∧
    staticDeq LibCfg.fixed (intS 1) (f64S 1572864) = .f ∧ staticDeq LibCfg.fixed (f64S 1572864) (intS 1) = .f ∧
    staticDeq LibCfg.fixed (strS "ab") (bytesS "ab") = .t ∧ staticDeq LibCfg.fixed (bytesS "ab") (strS "ab") = .t := by decide
example : staticCmp LibCfg.fixed (intS 5) 3 { text := strBytes "4", pi := some 4 } = .set true := by decide
example : staticLc LibCfg.fixed true (bytesS "ab") = .val 8 ∧ staticLc LibCfg.fixed false (strS "ab") = .val 2 := by decide

/-- Known finding `static-deq-asymmetric`: DeepEqual(1, 1.5) is true (the float is truncated), DeepEqual(1.5, 1) false. -/
theorem repo_not_correct_deq_asymmetric :
    staticDeqAccepts (intS 1) (f64S 1572864)
      (staticDeq LibCfg.original (intS 1) (f64S 1572864)) (staticDeq LibCfg.original (f64S 1572864) (intS 1)) = false := by
  decide

/-- Known finding `static-deq-diverges`: a string against an int recurses forever. -/
theorem repo_not_correct_deq_diverges :
    staticDeqAccepts (strS "a") (intS 1)
      (staticDeq LibCfg.original (strS "a") (intS 1)) (staticDeq LibCfg.original (intS 1) (strS "a")) = false := by
  decide

/-- Known finding `static-reset-text-lost`: Reset of a `*string` assigns to a local, the target keeps "ab". -/
theorem repo_not_correct_reset_text_lost :
    staticResetAccepts (strS "ab" true) (staticResetObs LibCfg.original (strS "ab" true)) = false := by
  decide

/-- The repaired runtime on the same inputs (instances of the theorems above). -/
example : staticDeqAccepts (intS 1) (f64S 1572864)
    (staticDeq LibCfg.fixed (intS 1) (f64S 1572864)) (staticDeq LibCfg.fixed (f64S 1572864) (intS 1)) = true :=
  deq_correct _ _
example : staticResetAccepts (strS "ab" true) (staticResetObs LibCfg.fixed (strS "ab" true)) = true := reset_correct _

/-- Why `lc_correct` has a hypothesis: an operand tagged `[]byte` that carries a string value (no Go value is
like that) — the relation reads it as "not a byte slice, length 0", the model takes the length of the text. -/
theorem lc_untyped_counterexample :
    let s : Src := { kind := .bytes, v := .str (strBytes "ab") }
    textSrcTyped s = false ∧ s.wt = false ∧ staticLcAccepts false s (staticLc LibCfg.fixed false s) = false := by
  decide

/-- Why `copyTo_correct` has a hypothesis: for a destination-form token other than v / p / pn the driver's
reading of the token as (isPointer, isNil) and the relation's reading disagree. -/
theorem copyTo_bad_form_counterexample :
    staticCopyToAccepts (intS 1) .int "x" (staticCopyToObs LibCfg.fixed (intS 1) .int "int" "x") = false := by
  decide
end NonVacuity

/-! ### The current tree

Every listed defect of the static and strings inspectors has been repaired in /repo: the configuration that
mirrors the tree is the repaired one up to the one switch of the map[string]any inspector that may still be on
(`samapNilPtrPanics`, which `staticCmp` / `staticDeq` / … do not read), so every theorem above is a theorem about
the model of the current tree. (With that switch off in `LibCfg.repo` the right-hand side is `LibCfg.fixed`.) -/
section CurrentTree
theorem repo_is_fixed : LibCfg.repo = LibCfg.fixed := rfl

theorem cmp_current (s : Src) (op : Op) (right : Seg) :
    staticCmpAccepts s op right (staticCmp LibCfg.repo s op right) = true := cmp_correct s op right
theorem deq_current (l r : Src) :
    staticDeqAccepts l r (staticDeq LibCfg.repo l r) (staticDeq LibCfg.repo r l) = true := deq_correct l r
theorem deq_symmetric_current (l r : Src) : staticDeq LibCfg.repo l r = staticDeq LibCfg.repo r l :=
  deq_symmetric l r
end CurrentTree

/-! ### C02 for the static inspector: no method panics, typed-nil pointers included

(`CopyTo` needs its out-parameter: a nil destination pointer is outside C02's quantifier.) -/
section NoPanic
theorem cmp_no_panic (s : Src) (op : Op) (right : Seg) : staticCmp LibCfg.fixed s op right ≠ .panic := by
  unfold staticCmp
  simp only [LibCfg.fixed]
  by_cases hf : s.kind = .foreign
  · simp [hf]
  · by_cases hn : s.v.isNilPtr = true
    · simp [hf, hn]
    · simp only [hn]
      cases s.kind.family
      all_goals simp only []
      all_goals (repeat' split)
      all_goals simp

theorem deq_no_panic (l r : Src) : staticDeq LibCfg.fixed l r ≠ .panic := by
  rcases deq_total l r with h | h <;> simp [h]

theorem lc_no_panic (isCap : Bool) (s : Src) : staticLc LibCfg.fixed isCap s ≠ .panic := by
  unfold staticLc
  simp only [LibCfg.fixed]
  split
  · simp
  · split <;> simp

theorem copy_no_panic (s : Src) : (sobsOf (staticCopy LibCfg.fixed s)).tag ≠ "panic" := by
  unfold staticCopy
  simp only [LibCfg.fixed]
  split
  · decide
  · split <;> simp [sobsOf]

/-- CopyTo refuses a typed-nil destination pointer as well: no destination form panics. -/
theorem copyTo_no_panic (s : Src) (dkind : DynKind) (dk dform : String) :
    (staticCopyToObs LibCfg.fixed s dkind dk dform).tag ≠ "panic" := by
  unfold staticCopyToObs staticCopyTo
  simp only [LibCfg.fixed]
  by_cases hf : s.kind = .foreign
  · simp [hf, sobsOf]
  · by_cases hn : s.v.isNilPtr = true
    · simp [hf, hn, sobsOf]
    · by_cases hd : (dform != "v" && dform == "pn") = true
      · simp [hf, hn, hd, sobsOf]
      · by_cases hm : (dform != "v" && dkind == s.kind) = true
        · simp only [hn, hd, hm]
          cases hv : s.v <;> simp_all [sobsOf, Val.isNilPtr] <;> (split <;> simp_all)
        · simp [hf, hn, hd, hm, sobsOf]

theorem reset_no_panic (s : Src) : (staticResetObs LibCfg.fixed s).tag ≠ "panic" := by
  unfold staticResetObs
  simp only [LibCfg.fixed]
  repeat (first | split | decide | simp)

/-- The original library dereferenced a typed-nil `*int`. -/
theorem original_panics_nil_ptr :
    staticCmp LibCfg.original { kind := .int, isPtr := true, v := .nilptr } 1 { text := strBytes "1", pi := some 1 } = .panic ∧
    staticLc LibCfg.original false { kind := .string, isPtr := true, v := .nilptr } = .panic ∧
    (staticResetObs LibCfg.original { kind := .int, isPtr := true, v := .nilptr }).tag = "panic" := by decide
end NoPanic

/-! Compare on the IEEE special values. The value model has finite fixed-point floats; NaN and the infinities
exist for Compare only (`FClass`, `ieeeCmp`, XF records of the run). -/
section SpecialFloats

/-- On finite values `ieeeCmp` is the comparison the main model (`staticCmpSix`) makes. -/
theorem special_fin_agrees (op : Op) (a b : Int) :
    ieeeCmp op (.fin a) (.fin b) = staticCmpSix op (.float a) (.float b) := by
  simp only [ieeeCmp, staticCmpSix, staticCmpSix.nativeCmpRaw, FClass.eq, FClass.lt, valEq, valLt]
  repeat (split <;> try rfl)

/-- Native comparison with a NaN on either side: only `!=` holds. -/
theorem special_nan_left (op : Op) (x : FClass) : ieeeCmp op .nan x = (op == 2) := by
  have h : ∀ x, ieeeCmp op .nan x = (!decide (op = 1) && decide (op = 2)) := by
    intro x; cases x <;> simp [ieeeCmp, FClass.eq, FClass.lt]
  rw [h]
  by_cases h2 : op = 2
  · subst h2; decide
  · simp [h2]

theorem special_nan_right (op : Op) (x : FClass) : ieeeCmp op x .nan = (op == 2) := by
  have h : ∀ x, ieeeCmp op x .nan = (!decide (op = 1) && decide (op = 2)) := by
    intro x; cases x <;> simp [ieeeCmp, FClass.eq, FClass.lt]
  rw [h]
  by_cases h2 : op = 2
  · subst h2; decide
  · simp [h2]

/-- The infinities bound every finite value, strictly. -/
theorem special_inf_order (a : Int) :
    ieeeCmp 5 .ninf (.fin a) = true ∧ ieeeCmp 5 (.fin a) .pinf = true ∧ ieeeCmp 5 .ninf .pinf = true ∧
    ieeeCmp 1 .pinf .pinf = true ∧ ieeeCmp 1 .ninf .ninf = true ∧ ieeeCmp 1 .ninf .pinf = false := by
  simp [ieeeCmp, FClass.eq, FClass.lt]

/-- `>=` is `>` or `==`, `<=` is `<` or `==`, `!=` is the negation of `==` — on every pair, NaN included
(where `>=` and `<=` are both false although `!=` is true). -/
theorem special_operators (l r : FClass) :
    ieeeCmp 4 l r = (ieeeCmp 3 l r || ieeeCmp 1 l r) ∧ ieeeCmp 6 l r = (ieeeCmp 5 l r || ieeeCmp 1 l r) ∧
    ieeeCmp 2 l r = !ieeeCmp 1 l r ∧ ieeeCmp 3 l r = ieeeCmp 5 r l := by
  simp [ieeeCmp]

/-- An unparsable (or out-of-range) operand leaves the result alone. -/
theorem special_unparsable (op : Op) (l : FClass) : staticCmpSpecial op l none = .untouched := rfl

/-- The generated comparison on special values (`genCmpSpecial`, FC records of C04) is, on finite values, the
six-way switch of the emitter model (`cmpSix`). -/
theorem special_gen_fin_agrees (op : Int) (a b : Int) :
    genCmpSpecial op (.fin a) (some (.fin b)) = cmpSix op (.float a) (.float b) := by
  simp only [genCmpSpecial, cmpSix, ieeeCmp, FClass.eq, FClass.lt, valEq, valLt]
  by_cases h1 : op = 1
  · subst h1; simp
  by_cases h2 : op = 2
  · subst h2; simp
  by_cases h3 : op = 3
  · subst h3; simp
  by_cases h4 : op = 4
  · subst h4; simp
  by_cases h5 : op = 5
  · subst h5; simp
  by_cases h6 : op = 6
  · subst h6; simp
  have hr : ¬ (1 ≤ op ∧ op ≤ 6) := by omega
  simp [h1, h2, h3, h4, h5, h6, hr]

example : ieeeCmp 5 .nan (.fin 1048576) = false ∧ ieeeCmp 1 .nan .nan = false ∧ ieeeCmp 2 .nan .nan = true ∧
    ieeeCmp 3 (.fin 1048576) .nan = false := by decide
end SpecialFloats

end Inspector.C16
