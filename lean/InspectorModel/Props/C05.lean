/-
Props/C05.lean — property theorems for C05.
-/
import InspectorModel.Gen.DEQ
import InspectorModel.Spec.StructEq
namespace Inspector.C05

/-- The decision function of options.go with nil options: every field is checked. -/
theorem mustCheck_nil (path : String) : deqMustCheck path none = true := rfl

end Inspector.C05
