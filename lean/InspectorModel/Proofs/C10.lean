/-
Proofs/C10.lean — the repaired Length/Capacity emitter model stores the native len / cap of the element
native navigation reaches (property C10).
-/
import InspectorModel.Proofs.C04
import InspectorModel.Spec.LcSpec
set_option linter.unusedSimpArgs false
namespace Inspector

/-! ## Hypotheses about the parsed tree -/

mutual
/-- What the theorem needs of the `hasc` attribute ("something with a length/capacity below"): it is set on
every string-kinded scalar, on every map and slice, and on every struct with a child that has it. (Only
this direction matters: a spurious `hasc = true` costs emitted code, never correctness.) -/
def HascOK : Node → Bool
  | .basic i => !(i.typu == "string") || i.hasc
  | .struct i chld => (!chld.any (fun c => c.info.hasc) || i.hasc) && HascOKs chld
  | .map i _ v => i.hasc && HascOK v
  | .slice i e => i.hasc && HascOK e
def HascOKs : List Node → Bool
  | [] => true
  | n :: ns => HascOK n && HascOKs ns
end

mutual
/-- The exact rule both parsers implement (parser_ast.go:114,139,158,172; parser_loader.go:124,136,146,154):
basic `hasc = (typu == "string")`, struct `hasc = any child hasc`, map / slice `hasc = true`. -/
def HascExact : Node → Bool
  | .basic i => i.hasc == (i.typu == "string")
  | .struct i chld => (i.hasc == chld.any (fun c => c.info.hasc)) && HascExacts chld
  | .map i k v => i.hasc && HascExact k && HascExact v
  | .slice i e => i.hasc && HascExact e
def HascExacts : List Node → Bool
  | [] => true
  | n :: ns => HascExact n && HascExacts ns
end

/-- Field names of one struct are pairwise different (as the byte strings a path segment is compared with). -/
def distinctNames : List Node → Bool
  | [] => true
  | c :: cs => !(cs.any (fun d => strBytes d.name == strBytes c.name)) && distinctNames cs

mutual
/-- Every struct in the tree has pairwise different field names (a Go language invariant; the emitted
`if path[d] == "F"` arms only exist for the eligible children, so a duplicated name could hide an arm). -/
def FieldsDistinct : Node → Bool
  | .basic _ => true
  | .struct _ chld => distinctNames chld && FieldsDistincts chld
  | .map _ _ v => FieldsDistinct v
  | .slice _ e => FieldsDistinct e
def FieldsDistincts : List Node → Bool
  | [] => true
  | n :: ns => FieldsDistinct n && FieldsDistincts ns
end

mutual
theorem HascOK_of_exact : ∀ (n : Node), HascExact n = true → HascOK n = true
  | .basic i, h => by
    simp only [HascExact, beq_iff_eq] at h
    simp only [HascOK, h]
    cases (i.typu == "string") <;> rfl
  | .struct i chld, h => by
    simp only [HascExact, Bool.and_eq_true, beq_iff_eq] at h
    simp only [HascOK, h.1, HascOKs_of_exact chld h.2, Bool.and_true]
    cases (chld.any fun c => c.info.hasc) <;> rfl
  | .map i k v, h => by
    simp only [HascExact, Bool.and_eq_true] at h
    simp [HascOK, h.1.1, HascOK_of_exact v h.2]
  | .slice i e, h => by
    simp only [HascExact, Bool.and_eq_true] at h
    simp [HascOK, h.1, HascOK_of_exact e h.2]
theorem HascOKs_of_exact : ∀ (ns : List Node), HascExacts ns = true → HascOKs ns = true
  | [], _ => rfl
  | n :: ns, h => by
    simp only [HascExacts, Bool.and_eq_true] at h
    simp [HascOKs, HascOK_of_exact n h.1, HascOKs_of_exact ns h.2]
end

theorem HascOKs_mem (chld : List Node) (ch : Node) (h : HascOKs chld = true) (hm : ch ∈ chld) : HascOK ch = true := by
  induction chld with
  | nil => cases hm
  | cons c cs ih =>
    simp only [HascOKs, Bool.and_eq_true] at h
    cases hm with
    | head => exact h.1
    | tail _ hm => exact ih h.2 hm

theorem FieldsDistincts_mem (chld : List Node) (ch : Node) (h : FieldsDistincts chld = true) (hm : ch ∈ chld) :
    FieldsDistinct ch = true := by
  induction chld with
  | nil => cases hm
  | cons c cs ih =>
    simp only [FieldsDistincts, Bool.and_eq_true] at h
    cases hm with
    | head => exact h.1
    | tail _ hm => exact ih h.2 hm

/-! ## Acceptance of `0` -/

theorem LcOut.beq_refl (o : LcOut) : (o == o) = true := by simp

/-- Behind an absent key (and outside the property's domain) `0` is accepted. -/
theorem lcAcceptsNav_zero (isCap : Bool) (r : NavR) (h : r.viaTrue = true) :
    lcAcceptsNav isCap r (.val 0) = true := by
  cases r <;> simp_all [NavR.viaTrue, lcAcceptsNav]

/-! ## Pointer stripping of well-typed values -/

theorem strip_of_not_ptr (v : Val) (h2 : ∀ w, v ≠ .ptr w) : v.strip = v := by
  cases v <;> simp [Val.strip] at h2 ⊢

/-- After the emitted nil guard and dereference the variable holds what the reference denotes. -/
theorem strip_deref (n : Node) (v : Val) (h : WT n v = true) (hnn : (n.ptr && v.isNilPtr) = false) :
    v.strip = derefIf n.ptr v := by
  rcases WT_ptr_cases n v h with ⟨hp, hv⟩ | ⟨hp, _, h2⟩
  · rcases hv with hv | ⟨w, hv, hw⟩
    · subst hv; simp [hp, Val.isNilPtr] at hnn
    · subst hv
      rcases WT_ptr_cases _ w hw with ⟨hp', _⟩ | ⟨_, _, h2⟩
      · simp at hp'
      · simp [derefIf, hp, Val.strip, strip_of_not_ptr w h2]
  · simp [derefIf, hp, strip_of_not_ptr v h2]

theorem kindOfName_string (t : String) (h : kindOfName t = some .string) : t = "string" := by
  unfold kindOfName at h
  split at h <;> first | rfl | (injection h with h; cases h) | cases h

/-! ## Struct fields: the eligible children against all children -/

theorem findField_nil_vals (cs : List Node) (name : Bytes) : findField cs [] name = none := by
  cases cs <;> rfl

theorem findField_filter_none (cs : List Node) (P : Node → Bool) (name : Bytes)
    (h : cs.any (fun d => strBytes d.name == name) = false) :
    ∀ (vs : List Val), findField (cs.filter P) vs name = none := by
  induction cs with
  | nil => intro vs; rfl
  | cons c cs ih =>
    intro vs
    simp only [List.any_cons, Bool.or_eq_false_iff] at h
    simp only [List.filter_cons]
    by_cases hp : P c = true
    · simp only [hp, if_true]
      cases vs with
      | nil => rfl
      | cons f fs =>
        unfold findField
        simp only [h.1, Bool.false_eq_true, if_false]
        exact ih h.2 fs
    · simp only [hp, Bool.false_eq_true, if_false]
      exact ih h.2 vs

/-- The field the emitted arms select is the field native navigation selects, when that one has an arm. -/
theorem findField_eligible (chld : List Node) (name : Bytes) (hd : distinctNames chld = true) :
    ∀ (fs : List Val), findField (chld.filter lcEligible) (lcN.filterVals chld fs) name =
      (match findField chld fs name with
       | some (ch, fv) => if lcEligible ch then some (ch, fv) else none
       | none => none) := by
  induction chld with
  | nil => intro fs; rfl
  | cons c cs ih =>
    intro fs
    simp only [distinctNames, Bool.and_eq_true, Bool.not_eq_true'] at hd
    cases fs with
    | nil =>
      simp only [lcN.filterVals, findField_nil_vals]
    | cons f fs' =>
      simp only [List.filter_cons, lcN.filterVals]
      by_cases hn : (strBytes c.name == name) = true
      · have hname : strBytes c.name = name := by simpa using hn
        by_cases he : lcEligible c = true
        · simp [he, findField, hn]
        · have he' : lcEligible c = false := by simpa using he
          simp only [he', Bool.false_eq_true, if_false, findField, hn, if_true]
          exact findField_filter_none cs lcEligible name (hname ▸ hd.1) _
      · by_cases he : lcEligible c = true
        · simp only [he, if_true, findField, hn, Bool.false_eq_true, if_false]
          exact ih hd.2 fs'
        · have he' : lcEligible c = false := by simpa using he
          simp only [he', Bool.false_eq_true, if_false, findField, hn]
          exact ih hd.2 fs'

/-! ## Subtrees the emitter skips -/

theorem lcEligible_of_nohasc (n : Node) (h : n.info.hasc = false) : lcEligible n = false := by
  simp [lcEligible, h]

theorem lcEligible_struct (i : Info) (c : List Node) : lcEligible (.struct i c) = i.hasc := by
  simp [lcEligible, Node.isBasicTyp, Node.info]
theorem lcEligible_map (i : Info) (k v : Node) : lcEligible (.map i k v) = i.hasc := by
  simp [lcEligible, Node.isBasicTyp, Node.info]
theorem lcEligible_slice (i : Info) (e : Node) : lcEligible (.slice i e) = i.hasc := by
  simp [lcEligible, Node.isBasicTyp, Node.info]

/-- A basic node without an arm is not string-kinded. -/
theorem basic_not_string (i : Info) (hh : HascOK (.basic i) = true) (he : lcEligible (.basic i) = false) :
    (i.typu == "string") = false := by
  simp only [HascOK] at hh
  simp only [lcEligible, Node.isBasicTyp, Node.typu, Node.info, Bool.true_and] at he
  cases h1 : (i.typu == "string") <;> cases h2 : i.hasc <;> simp_all

/-- A well-typed value of a scalar node that is not string-kinded has no length. -/
theorem lcExpected_scalar (isCap : Bool) (i : Info) (m : Node) (w : Val) (hs : (i.typu == "string") = false)
    (hw : WT (.basic { i with ptr := false }) w = true) (hst : w.strip = w) :
    lcExpected isCap ⟨m, w⟩ = none := by
  have hne : ¬ i.typu = "string" := by simpa using hs
  simp only [lcExpected, hst]
  cases hk : kindOfName i.typu with
  | none => exfalso; cases w <;> simp [WT, hk] at hw
  | some k =>
    have hkk : k ≠ .string := fun h => hne (kindOfName_string _ (h ▸ hk))
    cases w <;> cases k <;> simp [WT, hk, wtScalar] at hw hkk ⊢

/-- At an element for which the emitter produces no arm, `0` is accepted wherever the path leads:
nothing below it has a length or capacity the property speaks about. -/
theorem nolen_zero (isCap : Bool) (p : List Seg) : ∀ (n : Node) (v : Val) (via : Bool),
    HascOK n = true → WT n v = true → lcEligible n = false →
    lcAcceptsNav isCap (navV via n v p) (.val 0) = true := by
  induction p with
  | nil =>
    intro n v via hh hwt he
    simp only [navV, lcAcceptsNav]
    rw [Bool.or_eq_true]; left
    by_cases hnil : (n.ptr && v.isNilPtr) = true
    · simp only [Bool.and_eq_true] at hnil
      have : v = .nilptr := by cases v <;> simp [Val.isNilPtr] at hnil ⊢
      subst this
      simp [lcExpected, Val.strip]
    · have hnil' : (n.ptr && v.isNilPtr) = false := by simpa using hnil
      have hw := WT_deref _ _ hwt hnil'
      have hs := strip_deref _ _ hwt hnil'
      cases n with
      | basic i =>
        rw [withPtr_basic] at hw
        have hst : (derefIf (Node.basic i).ptr v).strip = derefIf (Node.basic i).ptr v := by
          rcases WT_ptr_cases _ _ hw with ⟨hp', _⟩ | ⟨_, _, h2⟩
          · simp [Node.ptr, Node.info] at hp'
          · exact strip_of_not_ptr _ h2
        have := lcExpected_scalar isCap i (.basic i) _ (basic_not_string i hh he) hw hst
        simp only [lcExpected, hst] at this
        simp only [lcExpected, hs, this]
      | struct i chld =>
        rw [withPtr_struct] at hw
        obtain ⟨fs, hfs, _⟩ := WT_struct_inv _ _ _ rfl hw
        simp only [lcExpected, hs, hfs]
      | map i k mv =>
        simp only [HascOK, Bool.and_eq_true] at hh
        rw [lcEligible_map, hh.1] at he; cases he
      | slice i e =>
        simp only [HascOK, Bool.and_eq_true] at hh
        rw [lcEligible_slice, hh.1] at he; cases he
  | cons s rest ih =>
    intro n v via hh hwt he
    cases n with
    | basic i => simp [navV, lcAcceptsNav]
    | struct i chld =>
      by_cases hnil : (i.ptr && v.isNilPtr) = true
      · simp [navV, hnil, lcAcceptsNav]
      · have hnil' : (i.ptr && v.isNilPtr) = false := by simpa using hnil
        have hw := WT_deref _ _ hwt (by simpa using hnil')
        rw [withPtr_struct] at hw
        obtain ⟨fs, hfs, hwts⟩ := WT_struct_inv _ _ _ rfl hw
        simp only [ptr_struct] at hfs
        have hfs' : targetOf i.ptr v = Val.struct fs := hfs
        simp only [navV, hnil', isLeaf_struct, ptr_struct, hfs', Bool.false_eq_true, if_false]
        cases hff : findField chld fs s.text with
        | none => simp [lcAcceptsNav]
        | some cf =>
          obtain ⟨ch, fv⟩ := cf
          obtain ⟨hwtc, hmem⟩ := findField_WT _ _ _ _ _ hwts hff
          simp only [HascOK, Bool.and_eq_true, Bool.or_eq_true, Bool.not_eq_true'] at hh
          rw [lcEligible_struct] at he
          have hany : (chld.any fun c => c.info.hasc) = false := by
            rcases hh.1 with h | h
            · exact h
            · rw [he] at h; cases h
          have hch : ch.info.hasc = false := by
            rw [List.any_eq_false] at hany
            simpa using hany ch hmem
          exact ih ch fv via (HascOKs_mem _ _ hh.2 hmem) hwtc (lcEligible_of_nohasc ch hch)
    | map i k mv =>
      simp only [HascOK, Bool.and_eq_true] at hh
      rw [lcEligible_map, hh.1] at he; cases he
    | slice i e =>
      simp only [HascOK, Bool.and_eq_true] at hh
      rw [lcEligible_slice, hh.1] at he; cases he

/-! ## Main lemma -/

theorem typn_basic (i : Info) : (Node.basic i).typn = i.typn := rfl
theorem typu_basic (i : Info) : (Node.basic i).typu = i.typu := rfl

theorem isNilPtr_eq (v : Val) (h : v.isNilPtr = true) : v = .nilptr := by
  cases v <;> simp [Val.isNilPtr] at h ⊢

theorem WT_bytes_inv (i : Info) (e : Node) (w : Val) (hi : i.ptr = false) (hb : (i.typn == "[]byte") = true)
    (h : WT (.slice i e) w = true) : ∃ nl d c, w = .bytes nl d c := by
  have hb' : i.typn = "[]byte" := by simpa using hb
  cases w <;> simp [WT, hi, hb'] at h ⊢

/-- Main lemma of C10: at every node the repaired emitter stores a number the property accepts for where
native navigation ends. -/
theorem lcN_correct (isCap : Bool) (p : List Seg) : ∀ (n : Node) (v : Val) (via root : Bool),
    NodeWF n = true → HascOK n = true → FieldsDistinct n = true → WT n v = true →
    lcAcceptsNav isCap (navV via n v p) ((lcN GenCfg.fixed isCap n root v p).getD (.val 0)) = true := by
  induction p with
  | nil =>
    intro n v via root hwf hh hfd hwt
    simp only [navV, lcAcceptsNav]
    rw [Bool.or_eq_true]; left
    by_cases hnil : (n.ptr && v.isNilPtr) = true
    · have hv : v = .nilptr := isNilPtr_eq v (by simp only [Bool.and_eq_true] at hnil; exact hnil.2)
      subst hv
      unfold lcN
      simp [hnil, lcExpected, Val.strip]
    · have hnil' : (n.ptr && v.isNilPtr) = false := by simpa using hnil
      have hw := WT_deref _ _ hwt hnil'
      have hs := strip_deref _ _ hwt hnil'
      have hcfg : GenCfg.fixed.lcRootZero = false := rfl
      have hcfg2 : GenCfg.fixed.lcScalarSliceZero = false := rfl
      have hcfg3 : GenCfg.fixed.lcStructStopPanics = false := rfl
      cases n with
      | basic i =>
        rw [withPtr_basic] at hw
        have hst : (derefIf (Node.basic i).ptr v).strip = derefIf (Node.basic i).ptr v := by
          rcases WT_ptr_cases _ _ hw with ⟨hp', _⟩ | ⟨_, _, h2⟩
          · simp [Node.ptr, Node.info] at hp'
          · exact strip_of_not_ptr _ h2
        simp only [lcN, hnil', Bool.false_eq_true, if_false]
        by_cases hstr : (i.typu == "string") = true
        · have htu : i.typu = "string" := by simpa using hstr
          generalize derefIf (Node.basic i).ptr v = w at hw hst hs
          simp only [lcExpected, hs]
          cases w <;> simp [WT, htu, kindOfName, wtScalar] at hw ⊢
          cases isCap <;> simp [htu, lenOf]
        · have hstr' : (i.typu == "string") = false := by simpa using hstr
          have := lcExpected_scalar isCap i (.basic i) _ hstr' hw hst
          simp only [lcExpected, hst] at this
          simp only [lcExpected, hs, this]
      | struct i chld =>
        rw [withPtr_struct] at hw
        obtain ⟨fs, hfs, _⟩ := WT_struct_inv _ _ _ rfl hw
        simp only [lcExpected, hs, hfs]
      | map i k mv =>
        rw [withPtr_map] at hw
        obtain ⟨nl, ks, vs, hm, _, _, _⟩ := WT_map_inv { i with ptr := false } k mv _ rfl hw
        simp only [lcN, hnil', hcfg, Bool.and_false, Bool.false_eq_true, if_false, lcExpected, hs, hm]
        cases isCap <;> simp [lenOf]
      | slice i e =>
        rw [withPtr_slice] at hw
        by_cases hb : (i.typn == "[]byte") = true
        · obtain ⟨nl, d, c, hd⟩ := WT_bytes_inv { i with ptr := false } e _ rfl hb hw
          simp only [lcN, hnil', hb, Bool.false_eq_true, if_false, if_true, lcExpected, hs, hd]
          simp [lenOf]
        · have hb' : (i.typn == "[]byte") = false := by simpa using hb
          obtain ⟨nl, es, c, hes, _⟩ := WT_slice_inv { i with ptr := false } e _ rfl hb' hw
          simp only [lcN, hnil', hb', hcfg, hcfg2, Bool.false_eq_true, if_false, lcExpected, hs, hes]
          simp [lenOf]
  | cons s rest ih =>
    intro n v via root hwf hh hfd hwt
    have hzero : ∀ (m : Node) (x : Val), lcAcceptsNav isCap (navV true m x rest) (.val 0) = true :=
      fun m x => lcAcceptsNav_zero isCap _ (navV_true_via rest m x)
    have hcfg4 : GenCfg.fixed.lcElemStopZero = false := rfl
    cases n with
    | basic i => simp [navV, lcAcceptsNav]
    | struct i chld =>
      by_cases hnil : (i.ptr && v.isNilPtr) = true
      · rw [lcN]; simp [navV, hnil, lcAcceptsNav]
      · have hnil' : (i.ptr && v.isNilPtr) = false := by simpa using hnil
        have hw := WT_deref _ _ hwt (by simpa using hnil')
        rw [withPtr_struct] at hw
        obtain ⟨fs, hfs, hwts⟩ := WT_struct_inv _ _ _ rfl hw
        simp only [ptr_struct] at hfs
        have hfs' : targetOf i.ptr v = Val.struct fs := hfs
        simp only [FieldsDistinct, Bool.and_eq_true] at hfd
        simp only [HascOK, Bool.and_eq_true] at hh
        rw [lcN]
        simp only [navV, hnil', isLeaf_struct, ptr_struct, hfs, hfs', Bool.false_eq_true, if_false]
        rw [findField_eligible chld s.text hfd.1 fs]
        cases hff : findField chld fs s.text with
        | none => simp [lcAcceptsNav]
        | some cf =>
          obtain ⟨ch, fv⟩ := cf
          obtain ⟨hwtc, hmem⟩ := findField_WT _ _ _ _ _ hwts hff
          have hwfc : NodeWF ch = true := NodeWFs_mem _ _ (by simpa [NodeWF] using hwf) hmem
          have hhc : HascOK ch = true := HascOKs_mem _ _ hh.2 hmem
          have hfdc : FieldsDistinct ch = true := FieldsDistincts_mem _ _ hfd.2 hmem
          simp only []
          by_cases he : lcEligible ch = true
          · simp only [he, if_true]
            by_cases hcn : (ch.ptr && !ch.isBasicTyp && fv.isNilPtr) = true
            · simp only [hcn, if_true, Option.getD_none]
              simp only [Bool.and_eq_true] at hcn
              have hv : fv = .nilptr := isNilPtr_eq fv hcn.2
              subst hv
              cases rest with
              | nil => simp [navV, lcAcceptsNav, lcExpected, Val.strip]
              | cons s2 r2 =>
                by_cases hl : ch.isLeaf = true
                · simp [navV, hl, lcAcceptsNav]
                · simp [navV, hl, hcn.1.1, Val.isNilPtr, lcAcceptsNav]
            · simp only [hcn, Bool.false_eq_true, if_false]
              exact ih ch fv via false hwfc hhc hfdc hwtc
          · have he' : lcEligible ch = false := by simpa using he
            simp only [he', Bool.false_eq_true, if_false, Option.getD_none]
            exact nolen_zero isCap rest ch fv via hhc hwtc he'
    | map i k mv =>
      by_cases hnil : (i.ptr && v.isNilPtr) = true
      · rw [lcN]; simp [navV, hnil, lcAcceptsNav]
      · have hnil' : (i.ptr && v.isNilPtr) = false := by simpa using hnil
        have hw := WT_deref _ _ hwt (by simpa using hnil')
        rw [withPtr_map] at hw
        obtain ⟨nl, ks, vs, hm, _, _, hwtv⟩ := WT_map_inv { i with ptr := false } k mv _ rfl hw
        simp only [ptr_map] at hm
        have hm' : targetOf i.ptr v = Val.map nl ks vs := hm
        simp only [NodeWF, Bool.and_eq_true] at hwf
        obtain ⟨⟨hkb, hwfk⟩, hwfm⟩ := hwf
        simp only [HascOK, Bool.and_eq_true] at hh
        simp only [FieldsDistinct] at hfd
        have hz : WT mv (zeroVal mv) = true := WT_zeroVal mv hwfm
        cases k with
        | basic ki =>
          rw [lcN]
          simp only [navV, hnil', isLeaf_map, ptr_map, ptr_basic, typn_basic, typu_basic, hm, hm',
            hcfg4, Bool.and_false, Bool.false_eq_true, if_false]
          by_cases hhm : mv.info.hasc = true
          · simp only [hhm, Bool.not_true, Bool.false_eq_true, if_false]
            have nested : ∀ (x : Val) (via' : Bool), WT mv x = true →
                lcAcceptsNav isCap (navV via' mv x rest) ((lcN GenCfg.fixed isCap mv false x rest).getD (.val 0)) = true :=
              fun x via' hx => ih mv x via' false hwfm hh.2 hfd hx
            by_cases hstr : (ki.typn == "string") = true
            · have htn : ki.typn = "string" := by simpa using hstr
              have htu : ki.typu = "string" := by
                simp only [NodeWF, Bool.and_eq_true, Bool.or_eq_true, Bool.not_eq_true', beq_iff_eq] at hwfk
                rcases hwfk.2 with h2 | h2
                · rw [htn] at h2; cases h2
                · rw [← h2]; exact htn
              simp only [hstr, if_true]
              by_cases hp : ki.ptr = true
              · have hk : specKey (Node.basic ki) s = .never := by
                  unfold specKey
                  simp [Node.ptr, Node.info, Node.typu, hp, htu, kindOfName]
                rw [hk]
                simp only [hp, if_true, Option.getD_none]
                exact hzero _ _
              · have hk : specKey (Node.basic ki) s = .key (.str s.text) := by
                  unfold specKey
                  simp [Node.ptr, Node.info, Node.typu, hp, htu, kindOfName]
                rw [hk]
                simp only [hp, Bool.false_eq_true, if_false]
                cases hl : lookupKey ks vs (.str s.text) with
                | some x => exact nested x via (lookupKey_WT mv ks vs _ x hwtv hl)
                | none => simp only [Option.getD_none]; exact hzero _ _
            · have hstr' : (ki.typn == "string") = false := by simpa using hstr
              simp only [hstr', Bool.false_eq_true, if_false]
              rcases key_cases ki s hwfk with hk | ⟨hk, hc⟩ | ⟨hk, hp, hc⟩ | ⟨key, hk, hp, hc⟩
              · rw [hk]; rfl
              · rw [hk, hc]; simp [lcAcceptsNav]
              · rw [hk]
                rcases hc with hc | ⟨key, hc⟩
                · rw [hc]; exact nested _ true hz
                · rw [hc]; simp only [hp, if_true]; exact nested _ true hz
              · rw [hk, hc]
                simp only [hp, Bool.false_eq_true, if_false]
                cases hl : lookupKey ks vs key with
                | some x => exact nested x via (lookupKey_WT mv ks vs key x hwtv hl)
                | none => exact nested _ true hz
          · have hhm' : mv.info.hasc = false := by simpa using hhm
            simp only [hhm', Bool.not_false, if_true, Option.getD_none]
            have hel : lcEligible mv = false := lcEligible_of_nohasc mv hhm'
            cases hk : specKey (Node.basic ki) s with
            | perr => simp [lcAcceptsNav]
            | unspec => rfl
            | never => exact hzero _ _
            | key key =>
              simp only []
              cases hl : lookupKey ks vs key with
              | some x => exact nolen_zero isCap rest mv x via hh.2 (lookupKey_WT mv ks vs key x hwtv hl) hel
              | none => exact hzero _ _
        | _ => simp [Node.isBasicTyp] at hkb
    | slice i e =>
      by_cases hb : (i.typn == "[]byte") = true
      · simp [navV, hb, lcAcceptsNav]
      · have hb' : (i.typn == "[]byte") = false := by simpa using hb
        have hbn : ¬ i.typn = "[]byte" := by simpa using hb
        by_cases hnil : (i.ptr && v.isNilPtr) = true
        · rw [lcN]; simp [navV, hnil, hbn, lcAcceptsNav]
        · have hnil' : (i.ptr && v.isNilPtr) = false := by simpa using hnil
          have hw := WT_deref _ _ hwt (by simpa using hnil')
          rw [withPtr_slice] at hw
          obtain ⟨nl, es, c, hes, hwte⟩ := WT_slice_inv { i with ptr := false } e _ rfl hb' hw
          simp only [ptr_slice] at hes
          have hes' : targetOf i.ptr v = Val.slice nl es c := hes
          have hwfe : NodeWF e = true := by simpa [NodeWF] using hwf
          simp only [HascOK, Bool.and_eq_true] at hh
          simp only [FieldsDistinct] at hfd
          have hcfg2 : GenCfg.fixed.lcScalarSliceZero = false := rfl
          rw [lcN]
          simp only [navV, hnil', hb', isLeaf_slice, ptr_slice, hes, hes', hcfg2, hcfg4, List.isEmpty_cons,
            Bool.not_false, Bool.and_false, Bool.and_true, Bool.false_or, Bool.false_eq_true, if_false]
          by_cases hhe : e.info.hasc = true
          · simp only [hhe, Bool.not_true, Bool.false_eq_true, if_false]
            cases hpi : s.pi with
            | none => simp [lcAcceptsNav]
            | some idx =>
              simp only []
              by_cases hlt : (es.length : Int) > idx
              · by_cases hneg : idx < 0
                · have hn : ¬ (0 ≤ idx ∧ idx < (es.length : Int)) := by omega
                  rw [if_neg hn, if_pos hlt, if_pos hneg]
                  have hcfg : GenCfg.fixed.negIndexPanics = false := rfl
                  simp [hcfg, lcAcceptsNav]
                · have hp : (0 ≤ idx ∧ idx < (es.length : Int)) := by omega
                  obtain ⟨x, hx⟩ := nth?_some_of_lt es idx.toNat (by omega)
                  have hwtx := nth?_WT e es _ x hwte hx
                  rw [if_pos hp, if_pos hlt, if_neg hneg]
                  simp only [hx]
                  exact ih e x via false hwfe hh.2 hfd hwtx
              · have hn : ¬ (0 ≤ idx ∧ idx < (es.length : Int)) := by omega
                rw [if_neg hn, if_neg hlt]
                simp [lcAcceptsNav]
          · have hhe' : e.info.hasc = false := by simpa using hhe
            simp only [hhe', Bool.not_false, if_true, Option.getD_none]
            have hel : lcEligible e = false := lcEligible_of_nohasc e hhe'
            cases hpi : s.pi with
            | none => simp [lcAcceptsNav]
            | some idx =>
              simp only []
              by_cases hp : (0 ≤ idx ∧ idx < (es.length : Int))
              · obtain ⟨x, hx⟩ := nth?_some_of_lt es idx.toNat (by omega)
                have hwtx := nth?_WT e es _ x hwte hx
                rw [if_pos hp]
                simp only [hx]
                exact nolen_zero isCap rest e x via hh.2 hwtx hel
              · rw [if_neg hp]
                simp [lcAcceptsNav]

end Inspector
