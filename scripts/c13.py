"""C13: byte-level comparisons of generator outputs (committed vs regenerated; package vs directory vs
single-file target; run A vs run B in fresh processes). These are file facts: checked, not proved."""
import json, os, re

IDS = re.compile(r"\b(i|t|err)(\d+)\b")


def renumber(src):
    """Canonical numbering of the generated local identifiers i<N> (receiver), t<N>, err<N>: by first appearance."""
    seen = {}

    def sub(m):
        key = m.group(0)
        cls = m.group(1)
        if key not in seen:
            seen[key] = "%s#%d" % (cls, sum(1 for k in seen if k.startswith(cls) and k[len(cls):].isdigit()))
        return seen[key]
    return IDS.sub(sub, src)


def read(p):
    try:
        with open(p, "rb") as f:
            return f.read().decode("utf8", "replace")
    except OSError:
        return None


def listing(d, suffix):
    try:
        return sorted(f for f in os.listdir(d) if f.endswith(suffix))
    except OSError:
        return []


def compare(prep, repo):
    """Returns (comparisons_done, findings) — findings are dicts {kind, file, detail}."""
    gm = prep["genmod"]
    A = os.path.join(gm, "targets", "A")
    B = os.path.join(gm, "targets", "B")
    findings, n = [], 0

    def cmp_dirs(kind, d1, d2, suffix, norm=None, names=None):
        nonlocal n
        l1, l2 = listing(d1, suffix), listing(d2, suffix)
        if names is not None:
            l1 = [f for f in l1 if f in names]
            l2 = [f for f in l2 if f in names]
        if l1 != l2:
            findings.append({"kind": kind, "file": "<file list>", "detail": "only in first: %s; only in second: %s" % (sorted(set(l1) - set(l2))[:8], sorted(set(l2) - set(l1))[:8])})
        for f in sorted(set(l1) & set(l2)):
            a, b = read(os.path.join(d1, f)), read(os.path.join(d2, f))
            n += 1
            if norm:
                a, b = norm(a), norm(b)
            if a != b:
                la, lb = a.splitlines(), b.splitlines()
                k = next((i for i in range(min(len(la), len(lb))) if la[i] != lb[i]), min(len(la), len(lb)))
                findings.append({"kind": kind, "file": f, "detail": "first difference at line %d: %r vs %r" % (k + 1, la[k][:160] if k < len(la) else None, lb[k][:160] if k < len(lb) else None)})

    for run in (A, B):
        errs = json.load(open(os.path.join(run, "errors.json"))) if os.path.exists(os.path.join(run, "errors.json")) else {"run": "missing"}
        for k, v in errs.items():
            if not k.startswith("decl"):
                findings.append({"kind": "generator-error", "file": k, "detail": v})
    pkg_go = os.path.join(A, "gopath", "src", "pkgout")
    pkg_xml = os.path.join(A, "gopath", "src", "pkgxml")
    # 1. shipped output is current
    cmp_dirs("shipped-source-stale", os.path.join(repo, "testobj_ins"), pkg_go, "_ins.go")
    cmp_dirs("shipped-xml-stale", os.path.join(repo, "testdata"), pkg_xml, ".xml")
    # 2. target independence (sources up to numbering of generated local identifiers; XML exactly)
    cmp_dirs("target-source-differs(package,directory)", pkg_go, os.path.join(A, "dir"), "_ins.go", renumber)
    cmp_dirs("target-source-differs(directory,file)", os.path.join(A, "dir"), os.path.join(A, "file"), "_ins.go", renumber)
    # 2b. the destination's previous content does not matter (NoClean run over longer / shorter / unrelated old files)
    cmp_dirs("rerun-differs(directory target: fresh destination, existing destination)", os.path.join(A, "dir"), os.path.join(A, "rerun"), "_ins.go", renumber)
    cmp_dirs("target-xml-differs(package,directory)", pkg_xml, os.path.join(A, "dirxml"), ".xml")
    cmp_dirs("target-xml-differs(directory,file)", os.path.join(A, "dirxml"), os.path.join(A, "filexml"), ".xml")
    # the grammar declarations: single-file target (prepare) against directory target
    cmp_dirs("target-xml-differs(grammar file,directory)", os.path.join(gm, "xml", "decl"), os.path.join(A, "decl_dirxml"), ".xml")
    alive = set(listing(os.path.join(gm, "decl_ins"), "_ins.go"))
    cmp_dirs("target-source-differs(grammar file,directory)", os.path.join(gm, "decl_ins"), os.path.join(A, "decl_dir"), "_ins.go", renumber, names=alive)
    # 3. determinism across fresh processes
    for sub, suffix in (("gopath/src/pkgout", "_ins.go"), ("gopath/src/pkgxml", ".xml"), ("dir", "_ins.go"), ("rerun", "_ins.go"), ("file", "_ins.go"), ("dirxml", ".xml"), ("filexml", ".xml"), ("decl_dir", "_ins.go"), ("decl_dirxml", ".xml")):
        cmp_dirs("run-to-run-differs(%s)" % sub, os.path.join(A, sub), os.path.join(B, sub), suffix)
    return n, findings
