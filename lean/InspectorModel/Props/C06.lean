/-
Props/C06.lean — property theorems for C06.
-/
import InspectorModel.Gen.Copy
import InspectorModel.Gen.Reset
import InspectorModel.Spec.CopySpec
namespace Inspector.C06

/-- A by-value destination is refused with the must-be-pointer error before anything is written. -/
theorem copyTo_by_value_refused (cfg : GenCfg) (n : Node) (r l : Val) :
    (match copyToM cfg n .ptr .val r l with | .mustPointer => true | _ => false) = true := rfl

end Inspector.C06
