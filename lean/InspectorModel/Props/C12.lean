/-
Props/C12.lean — property theorems for C12.
-/
import InspectorModel.Gen.Get
import InspectorModel.Gen.Cmp
import InspectorModel.Gen.LC
namespace Inspector.C12

/-- By value, by pointer and by pointer-to-pointer: the emitted argument-form switch leaves the same root. -/
theorem get_forms_agree (cfg : GenCfg) (n : Node) (v : Val) (p : List Seg) :
    getM cfg n .val v p = getM cfg n .ptr v p ∧ getM cfg n .ptr v p = getM cfg n .ptrptr v p := ⟨rfl, rfl⟩

end Inspector.C12
