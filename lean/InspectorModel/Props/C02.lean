/-
Props/C02.lean — property theorems for C02 (no generated inspector method panics, whatever the value, path,
operand, source or argument form).

For the *repaired* emitter model (`GenCfg.fixed`), every argument form `f : Form` (by value, `*T`, `**T`,
typed nil `(*T)(nil)`, `**T` to nil, `(**T)(nil)`, untyped nil, foreign type), every well-formed tree
(`NodeWF`), every well-typed value (`WT`) and every path / operator / operand / assigned source / options:
the model's outcome is not the panic outcome. One theorem per method:

  get_no_panic, cmp_no_panic, lc_no_panic, deq_no_panic, reset_no_panic, copy_no_panic, copyTo_no_panic,
  set_no_panic, loop_no_panic.

Hypotheses beyond `NodeWF`/`WT`, each a decidable `Bool`/`DecidableEq` fact the driver can evaluate:
  * `cmp_no_panic`: `EmitOK n` — for a *named* bool the emitter writes a six-way comparison that does not
    compile; the model's `cmpSix` answers `.panic` there (`cmp_needs_EmitOK`).
  * `copyTo_no_panic`: the destination value is well-typed too.
`RootOK` is needed nowhere; DeepEqual and Loop need nothing beyond `WT` (Loop: `NodeWF`, `WT`).

The model of the tree at the pinned commit (`GenCfg.original`) panics on every listed class: `repo_panics_*`.
`section CurrentTree`: for the methods whose model reads no switch that is still on in `GenCfg.repo` the theorems
hold of the emitter as it stands: `get_no_panic_current`, `cmp_no_panic_current`, `lc_no_panic_current`,
`deq_no_panic_current`, `reset_no_panic_current`, `loop_no_panic_current`, and since the Copy `fix:` commits
`copy_no_panic_current`, `copyTo_no_panic_current` (Set reads `setLostUpdate`, still on, and is left out).
-/
import InspectorModel.Proofs.C02
import InspectorModel.Proofs.C02Deq
import InspectorModel.Proofs.C02Reset
import InspectorModel.Proofs.C02Copy
import InspectorModel.Proofs.C02Set
import InspectorModel.Props.C16
import InspectorModel.Proofs.Reflect
import InspectorModel.Props.C17
import InspectorModel.Props.C18
import InspectorModel.Props.C19
import InspectorModel.Props.C01
import InspectorModel.Props.C04
import InspectorModel.Props.C09
import InspectorModel.Props.C10
import InspectorModel.Proofs.DEQCurrent
import InspectorModel.Proofs.ResetCurrent
import InspectorModel.Proofs.CopyCurrent
namespace Inspector.C02

/-- By value, by pointer and by pointer-to-pointer: the emitted argument-form switch leaves the same root. -/
theorem get_forms_agree (cfg : GenCfg) (n : Node) (v : Val) (p : List Seg) :
    getM cfg n .val v p = getM cfg n .ptr v p ∧ getM cfg n .ptr v p = getM cfg n .ptrptr v p := ⟨rfl, rfl⟩

/-- Get / GetTo never panic. -/
theorem get_no_panic (n : Node) (f : Form) (v : Val) (p : List Seg)
    (hwf : NodeWF n = true) (hwt : WT n v = true) :
    (getM GenCfg.fixed n f v p).isPanic = false :=
  getM_no_panic n f v p hwf hwt

/-- Compare never panics. -/
theorem cmp_no_panic (n : Node) (f : Form) (v : Val) (p : List Seg) (op : Op) (right : Seg)
    (hwf : NodeWF n = true) (hok : EmitOK n = true) (hwt : WT n v = true) :
    cmpM GenCfg.fixed n f v p op right ≠ .panic :=
  cmpM_no_panic n f v p op right hwf hok hwt

/-- Length (`isCap = false`) and Capacity (`isCap = true`) never panic. -/
theorem lc_no_panic (isCap : Bool) (n : Node) (f : Form) (v : Val) (p : List Seg)
    (hwf : NodeWF n = true) (hwt : WT n v = true) :
    lcM GenCfg.fixed isCap n f v p ≠ .panic :=
  lcM_no_panic isCap n f v p hwf hwt

/-- DeepEqual / DeepEqualWithOptions never panic: every pair of argument forms (a nil `**T` included), every
options value (`env.opts`), identical or independent arguments (`env.ident`). -/
theorem deq_no_panic (env : DeqEnv) (henv : env.cfg = GenCfg.fixed) (n : Node) (fl fr : Form) (l r : Val)
    (hl : WT n l = true) (hr : WT n r = true) :
    deqM env n fl fr l r ≠ .panic :=
  c02_deqM_no_panic env henv n fl fr l r hl hr

/-- Reset never panics. -/
theorem reset_no_panic (n : Node) (f : Form) (v : Val) (hwt : WT n v = true) :
    (resetM GenCfg.fixed n f v).isPanic = false :=
  resetM_no_panic n f v hwt

/-- Copy never panics. -/
theorem copy_no_panic (n : Node) (f : Form) (r : Val) (hwf : NodeWF n = true) (hr : WT n r = true) :
    (copyM GenCfg.fixed n f r).isPanic = false :=
  copyM_no_panic n f r hwf hr

/-- CopyTo never panics, whatever the destination holds. -/
theorem copyTo_no_panic (n : Node) (fs fd : Form) (r l : Val) (hwf : NodeWF n = true)
    (hr : WT n r = true) (hl : WT n l = true) :
    (copyToM GenCfg.fixed n fs fd r l).isPanic = false :=
  copyToM_no_panic n fs fd r l hwf hr hl

/-- Set / SetWithBuffer never panic: every assigned source (nil pointers and foreign types included), with
(`noBuf = false`) or without a buffer. -/
theorem set_no_panic (n : Node) (f : Form) (v : Val) (p : List Seg) (src : Src) (noBuf : Bool)
    (hwf : NodeWF n = true) (hwt : WT n v = true) :
    (setM GenCfg.fixed n f v p src noBuf).isPanic = false :=
  setM_no_panic n f v p src noBuf hwf hwt

/-- The Assign chain under Set never panics, whatever destination kind, old value and source. -/
theorem assign_no_panic (a : Bool) (dk : DynKind) (old : Val) (s : Src) (noBuf : Bool) :
    (assignM { strAppendsOld := a, nilSrcPanics := false } dk old s noBuf).isPanic = false :=
  assignM_np a dk old s noBuf

/-- Loop never panics: every iterator script and float-text oracle. -/
theorem loop_no_panic (sc : LoopScript) (ft : Val → Bytes) (n : Node) (f : Form) (v : Val) (p : List Seg)
    (hwf : NodeWF n = true) (hwt : WT n v = true) :
    (loopM GenCfg.fixed sc ft n f v p).fin ≠ .panic :=
  loopM_no_panic sc ft n f v p hwf hwt

section NonVacuity
/-- `type T struct { M map[string]int; L []int; P *int; S *string; E []*Inner; I Inner; PM map[*string]int }`,
`type Inner struct { B string }`. -/
def inner (name : String) (ptr : Bool) : Node :=
  .struct { typn := "Inner", name := name, ptr := ptr, hasc := true }
    [.basic { typn := "string", typu := "string", name := "B", hasc := true }]
def exNode : Node :=
  .struct { typn := "T", hasc := true } [
    .map { typn := "map[string]int", name := "M", hasc := true }
      (.basic { typn := "string", typu := "string" }) (.basic { typn := "int", typu := "int" }),
    .slice { typn := "[]int", name := "L", hasc := true } (.basic { typn := "int", typu := "int" }),
    .basic { typn := "int", typu := "int", name := "P", ptr := true },
    .basic { typn := "string", typu := "string", name := "S", ptr := true, hasc := true },
    .slice { typn := "[]*Inner", name := "E", hasc := true } (inner "" true),
    inner "I" false,
    .map { typn := "map[*string]int", name := "PM", hasc := true }
      (.basic { typn := "string", typu := "string", ptr := true }) (.basic { typn := "int", typu := "int" })]
/-- `M` nil, `L = [3]`, `P` nil, `S = &"s"`, `E = [nil]`, `I = {B: "b"}`, `PM = {nil: 1}`. -/
def exVal : Val :=
  .struct [.map true [] [], .slice false [.int 3] 1, .nilptr, .ptr (.str (strBytes "s")),
           .slice false [.nilptr] 1, .struct [.str (strBytes "b")], .map false [.nilptr] [.int 1]]
/-- The zero value of `T`. -/
def exZero : Val := zeroVal exNode
def seg (t : String) (pi : Option Int := none) : Seg := { text := strBytes t, pi := pi }
def srcInt (i : Int) : Src := { kind := .int, v := .int i }
def srcNilIntPtr : Src := { kind := .int, isPtr := true, v := .nilptr }
def exScriptKeys : LoopScript := { wantKey := [true], ctl := [0] }
def exScriptNoKeys : LoopScript := { wantKey := [false], ctl := [0] }
def exFt (_ : Val) : Bytes := []

/-- The hypotheses of all theorems hold of a concrete input full of nil pointers, nil maps and nil elements … -/
example : NodeWF exNode = true ∧ EmitOK exNode = true ∧ WT exNode exVal = true ∧ WT exNode exZero = true := by decide
/-- … on which the repaired model answers (instances of the theorems, evaluated). -/
example : (getM GenCfg.fixed exNode .ptr exVal [seg "L", seg "-1" (some (-1))]).isPanic = false := by decide
example : (getM GenCfg.fixed exNode .nilPtr exVal [seg "L"]).isPanic = false := by decide
example : cmpM GenCfg.fixed exNode .ptr exVal [seg "L", seg "0" (some 0)] 1 (seg "3" (some 3)) = .set true := by decide
example : lcM GenCfg.fixed false exNode .ptr exVal [seg "I"] = .val 0 := by decide
example : deqM { cfg := GenCfg.fixed, ident := true } exNode .ptr .val exVal exVal = .t := by decide
example : deqM { cfg := GenCfg.fixed } exNode .nilPtr .ptr exVal exVal = .f := by decide
example : (resetM GenCfg.fixed exNode .ptr exVal).isPanic = false := by decide
example : (copyM GenCfg.fixed exNode .ptr exVal).isPanic = false := by decide
example : (copyToM GenCfg.fixed exNode .ptr .ptr exVal exZero).isPanic = false := by decide
example : (setM GenCfg.fixed exNode .ptr exVal [seg "M", seg "a"] (srcInt 5) true).isPanic = false := by decide
example : (setM GenCfg.fixed exNode .ptr exVal [seg "P"] srcNilIntPtr true).isPanic = false := by decide
example : (loopM GenCfg.fixed exScriptNoKeys exFt exNode .ptr exVal [seg "PM"]).fin = .done := by decide

/-! ### The model of the current tree panics: one witness per known class -/

/-- `negative-index`: `L.-1` reaches `s[-1]`. -/
theorem repo_panics_negative_index :
    (getM GenCfg.original exNode .ptr exVal [seg "L", seg "-1" (some (-1))]).isPanic = true ∧
    cmpM GenCfg.original exNode .ptr exVal [seg "L", seg "-1" (some (-1))] 1 (seg "3" (some 3)) = .panic ∧
    (setM GenCfg.original exNode .ptr exVal [seg "L", seg "-1" (some (-1))] (srcInt 5) true).isPanic = true := by
  decide

/-- `nil-root-panics`: a typed-nil root is dereferenced (GetTo on the empty path, Reset, Copy, Length). -/
theorem repo_panics_nil_root :
    (getM GenCfg.original exNode .nilPtr exVal []).isPanic = true ∧
    cmpM GenCfg.original exNode .nilPtr exVal [seg "L"] 1 (seg "3") = .panic ∧
    (resetM GenCfg.original exNode .nilPtr exVal).isPanic = true ∧
    (copyM GenCfg.original exNode .nilPtr exVal).isPanic = true ∧
    lcM GenCfg.original false exNode .nilPtr exVal [seg "L"] = .panic ∧
    (setM GenCfg.original exNode .ptrNilPtr exVal [seg "L"] (srcInt 5) true).isPanic = true := by
  decide

/-- `lc-struct-stop-panics`: Length on a path that stops on the nested struct `I` indexes `path[1]`. -/
theorem repo_panics_lc_struct_stop :
    lcM GenCfg.original false exNode .ptr exVal [seg "I"] = .panic ∧
    lcM GenCfg.original true exNode .ptr exVal [seg "I"] = .panic := by
  decide

/-- `copy-nil-elem-panics`: the nil `*Inner` element of `E` is dereferenced. -/
theorem repo_panics_copy_nil_elem :
    (copyM GenCfg.original (.slice { typn := "[]*Inner" } (inner "" true)) .ptr (.slice false [.nilptr] 1)).isPanic = true := by
  decide

/-- `copy-nil-dest-panics`: the `*string` field `S` is written through the nil destination pointer. -/
theorem repo_panics_copy_nil_dest :
    (copyM GenCfg.original (.struct { typn := "T" } [.basic { typn := "string", typu := "string", name := "S", ptr := true }])
      .ptr (.struct [.ptr (.str (strBytes "s"))])).isPanic = true := by
  decide

/-- `type RM map[string]int`. -/
def exRootMap : Node :=
  .map { typn := "RM" } (.basic { typn := "string", typu := "string" }) (.basic { typn := "int", typu := "int" })

/-- `copy-root-map-panics`: copying a non-empty root map stores into the nil destination map. -/
theorem repo_panics_copy_root_map :
    (copyM GenCfg.original exRootMap .ptr (.map false [.str (strBytes "a")] [.int 1])).isPanic = true := by
  decide

/-- `reset-nil-ptr-panics`: Reset dereferences the nil `*int` field `P`. -/
theorem repo_panics_reset_nil_ptr :
    (resetM GenCfg.original exNode .ptr exVal).isPanic = true := by
  decide

/-- `set-nil-map-store`: Set on a nil root map stores into it. -/
theorem repo_panics_set_nil_map_store :
    (setM GenCfg.original exRootMap .ptr (.map true [] []) [seg "a"] (srcInt 5) true).isPanic = true := by
  decide

/-- `set-nil-leaf-ptr`: Set hands the nil `*int` field `P` to AssignBuf as the destination. -/
theorem repo_panics_set_nil_leaf_ptr :
    (setM GenCfg.original exNode .ptr exVal [seg "P"] (srcInt 5) true).isPanic = true := by
  decide

/-- `assign-nil-src`: Set with a nil `*int` as the assigned value dereferences it. -/
theorem repo_panics_assign_nil_src :
    (setM GenCfg.original exNode .ptr exVal [seg "L", seg "0" (some 0)] srcNilIntPtr true).isPanic = true := by
  decide

/-- `deq-ptr-leaf-nil`: DeepEqual dereferences the nil `*int` field `P` of both arguments. -/
theorem repo_panics_deq_ptr_leaf_nil :
    deqM { cfg := GenCfg.original } exNode .ptr .ptr exVal exVal = .panic := by
  decide

/-- `nil-root-panics`, DeepEqual: a nil `**T` argument is dereferenced in the header (`lx, leq = *lp, true`,
compiler.go:400-401) — also next to an unrecognised left argument, since `*rp` is evaluated before
`!leq || !req`; the repaired emitter refuses it (answer false). -/
theorem repo_panics_deq_nil_ptrptr :
    deqM { cfg := GenCfg.original } exNode .nilPtrPtr .ptr exVal exVal = .panic ∧
    deqM { cfg := GenCfg.original } exNode .ptr .nilPtrPtr exVal exVal = .panic ∧
    deqM { cfg := GenCfg.original } exNode .foreign .nilPtrPtr exVal exVal = .panic ∧
    deqM { cfg := GenCfg.fixed } exNode .nilPtrPtr .ptr exVal exVal = .f ∧
    deqM { cfg := GenCfg.fixed } exNode .ptr .nilPtrPtr exVal exVal = .f ∧
    deqM { cfg := GenCfg.fixed } exNode .foreign .nilPtrPtr exVal exVal = .f := by
  decide

/-- `loop-nil-key-panics`: Loop over `PM = map[*string]int{nil: 1}` with an iterator that asks for keys: the
emitted `*k` (compiler.go:785-800) dereferences the nil key; the repaired emitter hands over an empty key. -/
theorem repo_panics_loop_nil_key :
    (loopM GenCfg.original exScriptKeys exFt exNode .ptr exVal [seg "PM"]).fin = .panic ∧
    (loopM GenCfg.fixed exScriptKeys exFt exNode .ptr exVal [seg "PM"]).fin = .done ∧
    (loopM GenCfg.fixed exScriptKeys exFt exNode .ptr exVal [seg "PM"]).groups.map (·.key) = [some []] := by
  decide

/-! ### What the repaired model still does: the remaining hypothesis is needed -/

/-- `type B bool; type T struct { F B }`: the emitted six-way comparison on a named bool does not compile
(C14 class `named-scalar`); the model's `cmpSix` answers `.panic` there. `EmitOK` excludes exactly this. -/
def exNamedBool : Node := .struct { typn := "T" } [.basic { typn := "B", typu := "bool", name := "F" }]
theorem cmp_needs_EmitOK :
    NodeWF exNamedBool = true ∧ WT exNamedBool (.struct [.bool true]) = true ∧ EmitOK exNamedBool = false ∧
    cmpM GenCfg.fixed exNamedBool .ptr (.struct [.bool true]) [seg "F"] 1 { text := strBytes "true", pb := some true } = .panic := by
  decide

end NonVacuity

/-! ### The built-in inspectors and Assign/AssignBuf

C02 speaks about them too. Their models and theorems live with their own properties; the statements C02 needs
are collected here (so that the C02 check re-checks and audits them): for the repaired library
(`LibCfg.fixed`, which since the `fix:` commits is `LibCfg.repo` up to the switch `samapNilPtrPanics` —
`C16.repo_is_fixed`) no method of the static, strings and map[string]any inspectors panics — typed-nil pointers,
foreign arguments and nil sources included — and the assign chain never panics. (StringAnyMapInspector: while the
switch `samapNilPtrPanics` is on in `LibCfg.repo`, nil pointers on the way panic in the current tree, class
`samap-nil-ptr-panics`, `C18.original_panics_nil_ptr`; the `samap_*_no_panic_cfg` forms apply to any configuration
with the switch off. Loop/CopyTo/Reset of the strings inspector are total functions of the model whose outcome
types have no panic constructor reachable for `LibCfg.fixed`, see C17.) -/
section Builtin
theorem static_cmp_no_panic (s : Src) (op : Op) (right : Seg) : staticCmp LibCfg.fixed s op right ≠ .panic :=
  C16.cmp_no_panic s op right
theorem static_deq_no_panic (l r : Src) : staticDeq LibCfg.fixed l r ≠ .panic := C16.deq_no_panic l r
theorem static_deq_terminates (l r : Src) : staticDeq LibCfg.fixed l r ≠ .diverge := C16.deq_never_diverges l r
theorem static_lc_no_panic (isCap : Bool) (s : Src) : staticLc LibCfg.fixed isCap s ≠ .panic := C16.lc_no_panic isCap s
theorem static_copy_no_panic (s : Src) : (sobsOf (staticCopy LibCfg.fixed s)).tag ≠ "panic" := C16.copy_no_panic s
theorem static_copyTo_no_panic (s : Src) (dkind : DynKind) (dk dform : String) :
    (staticCopyToObs LibCfg.fixed s dkind dk dform).tag ≠ "panic" := C16.copyTo_no_panic s dkind dk dform
theorem static_reset_no_panic (s : Src) : (staticResetObs LibCfg.fixed s).tag ≠ "panic" := C16.reset_no_panic s
theorem strings_get_no_panic (isB : Bool) (f : Form) (v : Val) (p : List Seg) :
    (stringsGet LibCfg.fixed isB f v p == .panic) = false := C17.get_no_panic isB f v p
theorem strings_cmp_no_panic (f : Form) (v : Val) (p : List Seg) (op : Op) (right : Seg) :
    stringsCmp LibCfg.fixed f v p op right ≠ .panic := C17.cmp_no_panic f v p op right
theorem strings_lc_no_panic (isCap isB : Bool) (f : Form) (v : Val) (p : List Seg) :
    stringsLc LibCfg.fixed isCap isB f v p ≠ .panic := C17.lc_no_panic isCap isB f v p
theorem strings_set_no_panic (isB : Bool) (f : Form) (v : Val) (p : List Seg) (src : Src) :
    stringsSet LibCfg.fixed isB f v p src ≠ .panic := C17.set_no_panic isB f v p src
theorem strings_deq_no_panic (fl fr : Form) (a b : Val) : stringsDeq LibCfg.fixed fl fr a b ≠ .panic :=
  C17.deq_no_panic fl fr a b
/-- StringAnyMapInspector, repaired: every tree — nil `*map[string]any` / `**map[string]any` on the way, typed-nil
`*string` / `*[]byte` leaves and values included —, every key path. -/
theorem samap_get_no_panic (j : JVal) (p : List Bytes) : samapGet LibCfg.fixed j p ≠ .panic := C18.get_no_panic j p
theorem samap_cmp_no_panic (j : JVal) (p : List Bytes) (op : Op) (right : Seg) :
    (samapCmp LibCfg.fixed j p op right).1 ≠ .panic := C18.cmp_no_panic j p op right
theorem samap_len_no_panic (j : JVal) (p : List Bytes) : samapLen LibCfg.fixed j p ≠ .panic := C18.len_no_panic j p
theorem samap_cap_no_panic (j : JVal) (p : List Bytes) : samapCap LibCfg.fixed j p ≠ .panic := C18.cap_no_panic j p
theorem samap_set_no_panic (j : JVal) (p : List Bytes) (src : Src) : samapSet LibCfg.fixed j p src ≠ .panic :=
  C18.set_no_panic j p src
theorem samap_copy_no_panic (j : JVal) : (samapCpy LibCfg.fixed j).isSome = true := C18.copy_no_panic j
/-- Loop: every root node (all argument forms of the harness: `rootJ`), every key path. -/
theorem samap_loop_no_panic (j : JVal) (p : List Bytes) : samapLoop LibCfg.fixed j p ≠ .panic := C18.loop_no_panic j p
/-- Reset: every argument form, every tree (`none` is the panic). -/
theorem samap_reset_no_panic (f : Form) (m : JVal) : (samapReset LibCfg.fixed f m).isSome = true :=
  C18.reset_no_panic f m
/-- The same for any configuration with the nil-pointer switches off (for `LibCfg.repo` once they are). -/
theorem samap_no_panic_cfg (cfg : LibCfg) (hc : cfg.samapNilPtrPanics = false) (hs : cfg.staticNilPtrPanics = false)
    (j : JVal) (p : List Bytes) (op : Op) (right : Seg) (src : Src) :
    samapGet cfg j p ≠ .panic ∧ (samapCmp cfg j p op right).1 ≠ .panic ∧ samapLen cfg j p ≠ .panic ∧
    samapCap cfg j p ≠ .panic ∧ samapSet cfg j p src ≠ .panic ∧ (samapCpy cfg j).isSome = true :=
  ⟨C18.get_no_panic_cfg cfg hc j p, C18.cmp_no_panic_cfg cfg hc hs j p op right, C18.len_no_panic_cfg cfg hc j p,
   C18.cap_no_panic_cfg cfg hc j p, C18.set_no_panic_cfg cfg hc j p src, C18.copy_no_panic_cfg cfg hc j⟩
theorem samap_loop_reset_no_panic_cfg (cfg : LibCfg) (hc : cfg.samapNilPtrPanics = false)
    (j : JVal) (p : List Bytes) (f : Form) (m : JVal) :
    samapLoop cfg j p ≠ .panic ∧ (samapReset cfg f m).isSome = true :=
  ⟨C18.loop_no_panic_cfg cfg hc j p, C18.reset_no_panic_cfg cfg hc f m⟩
/-- ReflectInspector.Get (the only method of that inspector that does anything) never panics: every tree, every value
(nil pointers, nil collections), every path, the four argument forms of the harness. -/
theorem reflect_get_no_panic (n : Node) (nilRoot : Bool) (v : Val) (p : List Bytes) :
    (match reflectGetM LibCfg.fixed n nilRoot v p with | .panic => false | _ => true) = true := by
  unfold reflectGetM
  cases nilRoot
  · exact Reflect.getN_no_panic p n v
  · simp only [if_true]
    cases p <;> rfl
/-- The original code indexed the slice without a bounds test. -/
theorem original_reflect_panics :
    (match reflectGetM LibCfg.original (.slice { typn := "[]int" } (.basic { typn := "int", typu := "int" })) false
      (.slice false [.int 1] 1) [strBytes "5"] with | .panic => true | _ => false) = true := by decide
theorem library_repo_is_fixed : LibCfg.repo = LibCfg.fixed := C16.repo_is_fixed
end Builtin

/-! ### The tree as it is now

Get, Compare, Length/Capacity, DeepEqual, Reset and Loop read no switch that is still on in `GenCfg.repo`
(`C01.getM_repo`, `C04.cmpM_repo`, `C10.lcM_repo`, `DEQCurrent.deqM_repo`, `ResetCurrent.resetM_repo`,
`C09.loopN_repo`): their models for the current tree *are* the repaired models, so these methods of the emitter
as it stands never panic — every argument form. Since the six Copy `fix:` commits the same holds of Copy and
CopyTo (`CopyCurrent.copyM_repo`, `CopyCurrent.copyToM_repo`). Set is not covered: `setM` reads `setLostUpdate`,
the one switch still on. -/
section CurrentTree

/-- Loop of the current tree is Loop of the repaired emitter, for every argument form (`C09.loopM_repo` is stated
for recognised non-nil roots only). -/
theorem loopM_repo (sc : LoopScript) (ft : Val → Bytes) (n : Node) (f : Form) (v : Val) (p : List Seg) :
    loopM GenCfg.repo sc ft n f v p = loopM GenCfg.fixed sc ft n f v p := by
  have h : rootOfC GenCfg.repo f = rootOfC GenCfg.fixed f := rfl
  unfold loopM
  rw [h]
  simp only [C09.loopN_repo]
  rfl

/-- Get / GetTo of the emitter as it stands never panic. -/
theorem get_no_panic_current (n : Node) (f : Form) (v : Val) (p : List Seg)
    (hwf : NodeWF n = true) (hwt : WT n v = true) :
    (getM GenCfg.repo n f v p).isPanic = false := by
  rw [C01.getM_repo]; exact get_no_panic n f v p hwf hwt

/-- Compare of the emitter as it stands never panics. -/
theorem cmp_no_panic_current (n : Node) (f : Form) (v : Val) (p : List Seg) (op : Op) (right : Seg)
    (hwf : NodeWF n = true) (hok : EmitOK n = true) (hwt : WT n v = true) :
    cmpM GenCfg.repo n f v p op right ≠ .panic := by
  rw [C04.cmpM_repo]; exact cmp_no_panic n f v p op right hwf hok hwt

/-- Length / Capacity of the emitter as it stands never panic. -/
theorem lc_no_panic_current (isCap : Bool) (n : Node) (f : Form) (v : Val) (p : List Seg)
    (hwf : NodeWF n = true) (hwt : WT n v = true) :
    lcM GenCfg.repo isCap n f v p ≠ .panic := by
  rw [C10.lcM_repo]; exact lc_no_panic isCap n f v p hwf hwt

/-- DeepEqual / DeepEqualWithOptions of the emitter as it stands never panic: every pair of argument forms,
every options value, identical or independent arguments. -/
theorem deq_no_panic_current (env : DeqEnv) (henv : env.cfg = GenCfg.repo) (n : Node) (fl fr : Form) (l r : Val)
    (hl : WT n l = true) (hr : WT n r = true) :
    deqM env n fl fr l r ≠ .panic := by
  have he : env = { env with cfg := GenCfg.repo } := by
    cases env; simp only at henv; subst henv; rfl
  rw [he, DEQCurrent.deqM_repo]
  exact deq_no_panic { env with cfg := GenCfg.fixed } rfl n fl fr l r hl hr

/-- Reset of the emitter as it stands never panics. -/
theorem reset_no_panic_current (n : Node) (f : Form) (v : Val) (hwt : WT n v = true) :
    (resetM GenCfg.repo n f v).isPanic = false := by
  rw [ResetCurrent.resetM_repo]; exact reset_no_panic n f v hwt

/-- Loop of the emitter as it stands never panics: every iterator script and float-text oracle. -/
theorem loop_no_panic_current (sc : LoopScript) (ft : Val → Bytes) (n : Node) (f : Form) (v : Val) (p : List Seg)
    (hwf : NodeWF n = true) (hwt : WT n v = true) :
    (loopM GenCfg.repo sc ft n f v p).fin ≠ .panic := by
  rw [loopM_repo]; exact loop_no_panic sc ft n f v p hwf hwt

/-- Copy of the emitter as it stands never panics. -/
theorem copy_no_panic_current (n : Node) (f : Form) (r : Val) (hwf : NodeWF n = true) (hr : WT n r = true) :
    (copyM GenCfg.repo n f r).isPanic = false := by
  rw [CopyCurrent.copyM_repo]; exact copy_no_panic n f r hwf hr

/-- CopyTo of the emitter as it stands never panics, whatever the destination holds. -/
theorem copyTo_no_panic_current (n : Node) (fs fd : Form) (r l : Val) (hwf : NodeWF n = true)
    (hr : WT n r = true) (hl : WT n l = true) :
    (copyToM GenCfg.repo n fs fd r l).isPanic = false := by
  rw [CopyCurrent.copyToM_repo]; exact copyTo_no_panic n fs fd r l hwf hr hl

/-- Set of the emitter as it stands never panics (since the last `fix:` commit `GenCfg.repo = GenCfg.fixed`). -/
theorem set_no_panic_current (n : Node) (f : Form) (v : Val) (p : List Seg) (src : Src) (noBuf : Bool)
    (hwf : NodeWF n = true) (hwt : WT n v = true) :
    (setM GenCfg.repo n f v p src noBuf).isPanic = false :=
  set_no_panic n f v p src noBuf hwf hwt

theorem generator_repo_is_fixed : GenCfg.repo = GenCfg.fixed := rfl

example : (copyM GenCfg.repo exNode .ptr exVal).isPanic = false ∧
    (copyM GenCfg.repo exNode .nilPtr exVal).isPanic = false ∧
    (copyToM GenCfg.repo exNode .ptr .ptr exVal exZero).isPanic = false ∧
    (copyM GenCfg.repo exRootMap .ptr (.map false [.str (strBytes "a")] [.int 1])).isPanic = false := by decide

/-- The witnesses on which the tree at the pinned commit panicked, on the model of the current tree. -/
example : (getM GenCfg.repo exNode .ptr exVal [seg "L", seg "-1" (some (-1))]).isPanic = false ∧
    (getM GenCfg.repo exNode .nilPtr exVal []).isPanic = false ∧
    cmpM GenCfg.repo exNode .nilPtr exVal [seg "L"] 1 (seg "3") ≠ .panic ∧
    lcM GenCfg.repo false exNode .ptr exVal [seg "I"] ≠ .panic ∧
    (resetM GenCfg.repo exNode .ptr exVal).isPanic = false ∧
    deqM { cfg := GenCfg.repo } exNode .ptr .ptr exVal exVal ≠ .panic ∧
    deqM { cfg := GenCfg.repo } exNode .foreign .nilPtrPtr exVal exVal = .f ∧
    (loopM GenCfg.repo exScriptKeys exFt exNode .ptr exVal [seg "PM"]).fin = .done := by decide

end CurrentTree

end Inspector.C02
