/-
Proofs/C19.lean — helper lemmas for C19: the repaired Assign/AssignBuf chain (`assignM AssignCfg.fixed`)
against the canonical conversion table (`specConv`).
-/
import InspectorModel.Proofs.C01
import InspectorModel.Spec.Conv
set_option linter.unusedSimpArgs false
set_option linter.unusedVariables false
namespace Inspector

/-- Both listed defects of the chain repaired. -/
def AssignCfg.fixed : AssignCfg := { strAppendsOld := false, nilSrcPanics := false }

/-- The tree as it is. -/
def AssignCfg.repo : AssignCfg := { strAppendsOld := GenCfg.repo.strAppendsOld, nilSrcPanics := GenCfg.repo.assignNilSrcPanics }
/-- The library as it was at the pinned commit, before `fix: AssignToStr without a buffer …`. -/
def AssignCfg.original : AssignCfg := { strAppendsOld := true, nilSrcPanics := true }

/-- The chain's outcome is the one the table names. -/
def convAgrees : ConvR → AssignR → Bool
  | .unspec, _ => true
  | .fail, .no => true
  | .store v, .ok v' => valContentEq v' v
  | _, _ => false

/-! ### small facts -/

theorem family_foreign (k : DynKind) : (k.family = .foreign) ↔ k = .foreign := by
  cases k <;> simp [DynKind.family]

theorem bits_pos (k : DynKind) : 0 < k.bits := by cases k <;> simp [DynKind.bits]

theorem Val.beq_self (v : Val) : (v == v) = true := Val.beq_refl v

theorem Val.str_beq (a b : Bytes) : (Val.str a == Val.str b) = (a == b) := rfl

theorem valContentEq_refl (v : Val) : valContentEq v v = true := by
  cases v <;> simp [valContentEq, Val.beq_self]

theorem contentLen_of_valContentEq (a b : Val) (h : valContentEq a b = true) : contentLen a = contentLen b := by
  cases a <;> cases b <;> simp only [valContentEq, contentLen, Val.str_beq] at h ⊢
  all_goals first | rfl | (have := eq_of_beq h; subst this; rfl) | (change Val.beq _ _ = true at h; simp [Val.beq] at h)


/-! ### the chain against the table, destination family by destination family -/

theorem kind_beq_foreign (k : DynKind) : (k == DynKind.foreign) = (k.family == Family.foreign) := by
  cases k <;> rfl

theorem kind_bne_foreign (k : DynKind) : (k != DynKind.foreign) = !(k.family == Family.foreign) := by
  cases k <;> rfl

theorem agrees_signed (dk : DynKind) (hd : dk.family = .signed) (old : Val) (s : Src) (nb : Bool) :
    convAgrees (specConv dk s) (assignM AssignCfg.fixed dk old s nb) = true := by
  obtain ⟨k, ip, v, ft, pf⟩ := s
  cases dk <;> simp [DynKind.family] at hd
  all_goals
    simp only [specConv, assignM, kind_beq_foreign, kind_bne_foreign]
    generalize k.family = f
    cases f <;> cases v <;>
      simp [AssignCfg.fixed, DynKind.family, Val.isNilPtr, srcText]
    all_goals try (simp [convAgrees, valContentEq, Val.beq_self]; done)
  all_goals
    generalize atoiM _ = a
    cases a with
    | none => simp [convAgrees]
    | some i =>
      simp only []
      split
      · rename_i hr
        simp [convAgrees, valContentEq, wrapS_of_inRange _ _ (bits_pos _) hr, Val.beq_self]
      · simp [convAgrees]

theorem agrees_unsigned (dk : DynKind) (hd : dk.family = .unsigned) (old : Val) (s : Src) (nb : Bool) :
    convAgrees (specConv dk s) (assignM AssignCfg.fixed dk old s nb) = true := by
  obtain ⟨k, ip, v, ft, pf⟩ := s
  cases dk <;> simp [DynKind.family] at hd
  all_goals
    simp only [specConv, assignM, kind_beq_foreign, kind_bne_foreign]
    generalize k.family = f
    cases f <;> cases v <;>
      simp [AssignCfg.fixed, DynKind.family, Val.isNilPtr, srcText]
    all_goals try (simp [convAgrees, valContentEq, Val.beq_self]; done)
  all_goals
    generalize atouM _ = a
    cases a with
    | none => simp [convAgrees]
    | some i =>
      simp only []
      split
      · rename_i hr
        simp [convAgrees, valContentEq, wrapU_of_inRange _ _ hr, Val.beq_self]
      · simp [convAgrees]

theorem agrees_float (dk : DynKind) (hd : dk.family = .float) (old : Val) (s : Src) (nb : Bool) :
    convAgrees (specConv dk s) (assignM AssignCfg.fixed dk old s nb) = true := by
  obtain ⟨k, ip, v, ft, pf⟩ := s
  cases dk <;> simp [DynKind.family] at hd
  all_goals
    simp only [specConv, assignM, kind_beq_foreign, kind_bne_foreign]
    generalize k.family = f
    cases f <;> cases v <;>
      simp [AssignCfg.fixed, DynKind.family, Val.isNilPtr, srcText]
    all_goals try (simp [convAgrees, valContentEq, Val.beq_self]; done)
  all_goals
    generalize atofM _ = a
    rcases a with _ | _ | _ <;> simp [convAgrees, valContentEq, Val.beq_self]

theorem agrees_bool (old : Val) (s : Src) (nb : Bool) (h : boolSrcTyped .bool s = true) :
    convAgrees (specConv .bool s) (assignM AssignCfg.fixed .bool old s nb) = true := by
  obtain ⟨k, ip, v, ft, pf⟩ := s
  simp only [boolSrcTyped] at h
  revert h
  simp only [specConv, assignM, kind_beq_foreign, kind_bne_foreign]
  generalize k.family = f
  cases f <;> cases v <;>
    simp [AssignCfg.fixed, DynKind.family, Val.isNilPtr, srcText, scalarNonZero]
  all_goals try (simp [convAgrees, valContentEq, Val.beq_self]; done)

theorem agrees_text (dk : DynKind) (hd : dk.family = .text) (old : Val) (s : Src) (nb : Bool) :
    convAgrees (specConv dk s) (assignM AssignCfg.fixed dk old s nb) = true := by
  obtain ⟨k, ip, v, ft, pf⟩ := s
  cases dk <;> simp [DynKind.family] at hd
  all_goals
    simp only [specConv, assignM, renderSrc, specRender, kind_beq_foreign, kind_bne_foreign]
    generalize k.family = f
    cases f <;> cases v <;>
      simp [AssignCfg.fixed, DynKind.family, Val.isNilPtr, srcText]
    all_goals try (simp [convAgrees, valContentEq, Val.beq_self]; done)

theorem agrees_foreign (old : Val) (s : Src) (nb : Bool) :
    convAgrees (specConv .foreign s) (assignM AssignCfg.fixed .foreign old s nb) = true := by
  obtain ⟨k, ip, v, ft, pf⟩ := s
  simp only [specConv, assignM, kind_beq_foreign, kind_bne_foreign]
  generalize k.family = f
  cases f <;> cases v <;>
    simp [AssignCfg.fixed, DynKind.family, Val.isNilPtr, srcText, convAgrees]

/-- Every destination kind, every source: the repaired chain does what the table says. -/
theorem conv_agrees (dk : DynKind) (old : Val) (s : Src) (nb : Bool) (h : boolSrcTyped dk s = true) :
    convAgrees (specConv dk s) (assignM AssignCfg.fixed dk old s nb) = true := by
  cases hd : dk.family with
  | bool =>
    have : dk = .bool := by cases dk <;> simp [DynKind.family] at hd; rfl
    subst this
    exact agrees_bool old s nb h
  | signed => exact agrees_signed dk hd old s nb
  | unsigned => exact agrees_unsigned dk hd old s nb
  | float => exact agrees_float dk hd old s nb
  | text => exact agrees_text dk hd old s nb
  | foreign =>
    have : dk = .foreign := (family_foreign dk).1 hd
    subst this
    exact agrees_foreign old s nb

theorem boolSrcTyped_of_wt (dk : DynKind) (s : Src) (h : s.wt = true) : boolSrcTyped dk s = true := by
  obtain ⟨k, ip, v, ft, pf⟩ := s
  cases k <;> cases v <;> simp [Src.wt, boolSrcTyped, DynKind.family] at h ⊢

theorem boolSrcTyped_of_ne_bool (dk : DynKind) (s : Src) (h : dk ≠ .bool) : boolSrcTyped dk s = true := by
  cases dk <;> simp [boolSrcTyped] at h ⊢

/-- From agreement of outcomes to acceptance of the observation the driver derives from the outcome. -/
theorem accepts_of_agrees (dk : DynKind) (old : Val) (s : Src) (noBuf : Bool) (r : AssignR)
    (h : convAgrees (specConv dk s) r = true) :
    assignAccepts dk old s (!noBuf) ((assignObsOf r dk old s noBuf).getD {}).norm = true := by
  unfold assignAccepts
  generalize specConv dk s = c at h ⊢
  cases c with
  | unspec => rfl
  | fail =>
    cases r <;> simp [convAgrees] at h
    simp only [assignObsOf, Option.getD, AssignObs.norm]
    split <;> simp [valContentEq_refl]
  | store v =>
    cases r <;> simp [convAgrees] at h
    rename_i v'
    have hl := contentLen_of_valContentEq _ _ h
    simp only [assignObsOf, Option.getD, AssignObs.norm, hl]
    cases noBuf <;> by_cases h1 : dk.family = .text <;> by_cases h2 : s.kind.family = .text <;>
      by_cases h3 : contentLen v = 0 <;> simp [h, h1, h2, h3]

theorem no_panic (dk : DynKind) (old : Val) (s : Src) (nb : Bool) :
    (match assignM AssignCfg.fixed dk old s nb with | .panic => false | _ => true) = true := by
  obtain ⟨k, ip, v, ft, pf⟩ := s
  cases dk
  all_goals
    simp only [assignM, renderSrc, kind_beq_foreign, kind_bne_foreign]
    generalize k.family = f
    cases f <;> cases v <;>
      simp [AssignCfg.fixed, DynKind.family, Val.isNilPtr, srcText]
  all_goals first
    | (generalize atoiM _ = a; cases a <;> simp)
    | (generalize atouM _ = a; cases a <;> simp)
    | (generalize atofM _ = a; rcases a with _ | _ | _ <;> simp)

theorem assignM_isPtr (a : AssignCfg) (dk : DynKind) (old : Val) (s : Src) (nb : Bool) (p : Bool) :
    assignM a dk old { s with isPtr := p } nb = assignM a dk old s nb := by
  cases dk <;> simp only [assignM, renderSrc, atofM, srcText]

end Inspector
