/-
Spec/StrAnyMapSpec.lean — C18: the map[string]any inspector follows key paths through nested maps.
-/
import InspectorModel.Lib.StrAnyMap
import InspectorModel.Spec.StaticSpec
import InspectorModel.Spec.Conv
namespace Inspector

inductive JNav
  | found (j : JVal)
  | absent
  | nonMap
  | unspec      -- a nil pointer to a map on the way
deriving Inhabited

def jnav (j : JVal) (p : List Bytes) : JNav :=
  match p with
  | [] => .found j
  | k :: rest =>
    match j with
    | .map _ nilAt _ ks vs =>
      if nilAt != 0 then .unspec else
      (match JVal.lookup ks vs k with
       | some x => jnav x rest
       | none => .absent)
    | _ => .nonMap

/-- Leaves are compared by kind and content; whether a leaf is held by value or by pointer is not part of
the JSON-like trees the property quantifies over. -/
def srcEq (a b : Src) : Bool := a.kind == b.kind && valContentEq a.v b.v

mutual
def jeq : JVal → JVal → Bool
  | .nil, .nil => true
  | .other, .other => true
  | .leaf a, .leaf b => srcEq a b
  | .map h1 n1 _ ks1 vs1, .map h2 n2 _ ks2 vs2 => h1 == h2 && n1 == n2 && ks1.length == ks2.length && jeqEntries ks1 vs1 ks2 vs2
  | _, _ => false
def jeqEntries : List Bytes → List JVal → List Bytes → List JVal → Bool
  | k :: ks, v :: vs, ks2, vs2 =>
    (match JVal.lookup ks2 vs2 k with
     | some v2 => jeq v v2
     | none => false) && jeqEntries ks vs ks2 vs2
  | _, _, _, _ => true
end

def samapGetAccepts (j : JVal) (p : List Bytes) (o : JGet) : Bool :=
  match jnav j p with
  | .found x => (match o with | .node y => jeq x y | _ => false)
  | .absent => (match o with | .none => true | _ => false)
  | .nonMap => (match o with | .unsupported => true | _ => false)
  | .unspec => true

def samapLcAccepts (isCap : Bool) (j : JVal) (p : List Bytes) (o : JLc) : Bool :=
  match jnav j p with
  | .found x =>
    (match x with
     | .map _ nilAt _ ks _ => nilAt != 0 || isCap || o == .val ks.length
     | .leaf s =>
       if s.v.isNilPtr then true else
       (match s.v with
        | .str t => isCap || o == .val t.length
        | .bytes _ d c => o == .val (if isCap then c else d.length)
        | _ => o == .untouched || o == .val 0)
     | _ => o == .untouched || o == .val 0)
  | .absent => o == .untouched || o == .val 0
  | .nonMap => o == .unsupported
  | .unspec => true

def samapCmpAccepts (j : JVal) (p : List Bytes) (op : Op) (right : Seg) (o : CmpOut × Bool) : Bool :=
  match p with
  | [] => true
  | _ =>
    match jnav j p with
    | .found (.leaf s) => !o.2 && staticCmpAccepts s op right o.1
    | .found _ => !o.2 && o.1 != .panic
    | .absent => !o.2 && o.1 == .untouched
    | .nonMap => o.2
    | .unspec => true

/-- Does the path step into a nil map (held by value in its parent)? Nothing can be created there. -/
def passesNilMap (j : JVal) (p : List Bytes) : Bool :=
  match p with
  | [] => false
  | k :: rest =>
    match j with
    | .map _ _ mapNil ks vs => mapNil || (match JVal.lookup ks vs k with | some x => passesNilMap x rest | none => false)
    | _ => false

mutual
/-- Number of pointer-to-scalar leaves (outside the property's quantifier; the current code shares them). -/
def ptrLeafCount : JVal → Nat
  | .leaf s => if s.isPtr && !s.v.isNilPtr && s.kind.family != .text then 1 else 0
  | .map _ _ _ _ vs => ptrLeafCountList vs
  | _ => 0
def ptrLeafCountList : List JVal → Nat
  | [] => 0
  | v :: vs => ptrLeafCount v + ptrLeafCountList vs
end

mutual
/-- What a copy is compared with: the source, where a nil pointer to a map (whose copy cannot be a nil pointer: the
copy is built in a fresh map) stands for a pointer to an empty map in the same holding form. The identity on trees
without a nil pointer to a map. -/
def jCopyNorm : JVal → JVal
  | .map hold nilAt mapNil ks vs =>
    if nilAt != 0 then .map hold 0 false [] [] else .map hold 0 mapNil ks (jCopyNormList vs)
  | x => x
def jCopyNormList : List JVal → List JVal
  | [] => []
  | v :: vs => jCopyNorm v :: jCopyNormList vs
end

/-- Frame of Set: along the path only the addressed entries may differ; no other key appears. -/
def samapFrame (b a : JVal) (p : List Bytes) (fuel : Nat) : Bool :=
  match fuel, p with
  | 0, _ => true
  | _, [] => true
  | f + 1, k :: rest =>
    match b, a with
    | .map h1 n1 _ ks1 vs1, .map h2 n2 _ ks2 vs2 =>
      h1 == h2 && n1 == n2 &&
      (ks1.zip vs1).all (fun (bk, bv) =>
        match JVal.lookup ks2 vs2 bk with
        | some av => if bk == k then samapFrame bv av rest f else jeq bv av
        | none => false) &&
      ks2.all (fun ak => ak == k || (JVal.lookup ks1 vs1 ak).isSome)
    | _, _ => jeq b a

/-- The leaf Set has to store: text is copied (pointer forms dereferenced), everything else is stored as given.
`none`: a typed-nil `*string` / `*[]byte` value — outside C18, nothing is demanded of what is stored. -/
def samapStoredLeaf (src : Src) : Option JVal :=
  if src.kind.family == .text && src.v.isNilPtr then none else samapLeafOf LibCfg.fixed src

/-- Set replaces exactly the addressed leaf, creating intermediate maps; nothing else changes. -/
def samapSetAccepts (j : JVal) (p : List Bytes) (src : Src) (o : JSet) : Bool :=
  match o with
  | .panic => src.v.isNilPtr
  | .ok after | .unsupported after =>
    let framed := samapFrame j after p (p.length + 1)
    let stored : Bool :=
      match p, samapStoredLeaf src with
      | _ :: _, some x =>
        (match jnav after p with
         | .found y => jeq x y
         | _ => (match o with | .unsupported _ => true | _ => passesNilMap j p || (match j with | .map _ _ _ _ _ => false | _ => true)))
      | _, _ => true
    framed && stored

end Inspector
