/-
Core/Seg.lean — a path segment / operand text together with the strconv oracle for it (DESIGN.md 4.2):
the results of ParseInt(s,0,0), ParseUint(s,0,0), ParseFloat(s,64) (in 2⁻²⁰ units) and ParseBool(s),
as computed by the harness with the real strconv. Theorems hold for every oracle.
-/
import InspectorModel.Core.Types
namespace Inspector

/-- Result of ParseFloat in the model's fixed point: failure, not representable, or exact. -/
inductive PF
  | err
  | inexact
  | ok (fx : Int)
deriving Repr, DecidableEq, Inhabited

structure Seg where
  text : Bytes
  pi : Option Int := none
  pu : Option Nat := none
  pf : PF := .err
  pb : Option Bool := none
deriving Repr, Inhabited

/-- Outcome of converting a segment to a key/operand of some kind. -/
inductive Conv
  | ok (v : Val)
  | err        -- strconv reported an error: the emitted code returns it
  | opaque     -- parsed, but to a value the fixed-point model cannot name (inexact float)
deriving Inhabited

/-- The snippet registered under one type name (inspector.go:49-72, default_snippets.go). `none`: no snippet. -/
def convByName (t : String) (s : Seg) : Option Conv :=
  match t with
  | "bool" => some (match s.pb with | some b => .ok (.bool b) | none => .err)
  | "int" | "int64" => some (match s.pi with | some i => .ok (.int (wrapS 64 i)) | none => .err)
  | "int8" => some (match s.pi with | some i => .ok (.int (wrapS 8 i)) | none => .err)
  | "int16" => some (match s.pi with | some i => .ok (.int (wrapS 16 i)) | none => .err)
  | "int32" => some (match s.pi with | some i => .ok (.int (wrapS 32 i)) | none => .err)
  | "uint" | "uint64" => some (match s.pu with | some u => .ok (.uint (wrapU 64 u)) | none => .err)
  | "uint8" => some (match s.pu with | some u => .ok (.uint (wrapU 8 u)) | none => .err)
  | "uint16" => some (match s.pu with | some u => .ok (.uint (wrapU 16 u)) | none => .err)
  | "uint32" => some (match s.pu with | some u => .ok (.uint (wrapU 32 u)) | none => .err)
  | "float32" => some (match s.pf with | .ok fx => .ok (.float (roundF32 fx)) | .inexact => .opaque | .err => .err)
  | "float64" => some (match s.pf with | .ok fx => .ok (.float fx) | .inexact => .opaque | .err => .err)
  | "string" => some (.ok (.str s.text))
  | "[]byte" => some (.ok (.bytes false s.text s.text.length))
  | "byte" => some (match s.text with | b :: _ => .ok (.uint b.toNat) | [] => .ok (.uint 0))
  | _ => none

/-- The conversion snippets of default_snippets.go for type name `typn` / underlying `typu`
(`StrConvSnippet` looks up `typn` first, then `typu`). `none` = no snippet registered. -/
def convSeg (typn typu : String) (s : Seg) : Option Conv :=
  match convByName typn s with
  | some c => some c
  | none => convByName typu s

end Inspector
