/-
Props/C07.lean — property theorems for C07 (values handed out through an accumulating buffer).
-/
import InspectorModel.Lib.Buffer
namespace Inspector.C07

/-- Reset forgets every handed-out value and keeps the array. -/
theorem reset_keeps_array (cfg : BufCfg) (s : BufSt) (nc : Nat) :
    (bufStep cfg s .reset nc).arrays = s.arrays := rfl

end Inspector.C07
