/-
Proofs/C03Leaf.lean — the leaf step of Set: what the repaired assignment library (`assignM` with both
library defects off) does with a destination, against the conversion table `specConv`.
-/
import InspectorModel.Proofs.C03Lists
set_option linter.unusedSimpArgs false
set_option linter.unusedVariables false
namespace Inspector.C03

/-- The library configuration `assignLeaf GenCfg.fixed` uses. -/
def fixedA : AssignCfg := { strAppendsOld := false, nilSrcPanics := false }

theorem family_foreign (k : DynKind) (h : k.family = .foreign) : k = .foreign := by
  cases k <;> simp [DynKind.family] at h ⊢

theorem bits_pos (dk : DynKind) : 0 < dk.bits := by cases dk <;> simp [DynKind.bits]

theorem renderSrc_ne_panic (s : Src) (h : s.v.isNilPtr = false ∨ s.kind = .foreign) : renderSrc s ≠ .panic := by
  unfold renderSrc
  rcases h with h | h
  · split
    · simp
    · split <;> simp_all [Val.isNilPtr]
  · simp [h]

/-- The repaired library never panics. -/
theorem assignM_fixed_ne_panic (dk : DynKind) (old : Val) (s : Src) (nb : Bool) :
    assignM fixedA dk old s nb ≠ .panic := by
  unfold assignM
  by_cases h1 : (s.v.isNilPtr && s.kind != .foreign && !fixedA.nilSrcPanics) = true
  · simp [h1]
  · have h1' : (s.v.isNilPtr && s.kind != .foreign && !fixedA.nilSrcPanics) = false := by simpa using h1
    rw [if_neg h1]
    have hc : s.v.isNilPtr = false ∨ s.kind = .foreign := by
      simp [fixedA] at h1'
      by_cases hn : s.v.isNilPtr = true
      · right; exact h1' hn
      · left; simpa using hn
    have hr := renderSrc_ne_panic s hc
    rcases hc with hc | hc
    · repeat' split
      all_goals first | (simp; done) | (simp_all [Val.isNilPtr]; done) | skip
    · simp only [hc, DynKind.family]
      repeat' split
      all_goals first | (simp; done) | (simp_all [Val.isNilPtr]; done) | skip

/-- Whatever the library stores is a scalar, a string or a byte slice. -/
theorem assignM_ok_depth (acfg : AssignCfg) (dk : DynKind) (old : Val) (s : Src) (nb : Bool) (v' : Val)
    (h : assignM acfg dk old s nb = .ok v') : vdepth v' = 1 := by
  unfold assignM at h
  repeat' split at h
  all_goals first | (cases h; done) | (injection h with h; subst h; simp [vdepth]; done) | skip

/-- The leaf fact C03 needs from the assignment library (C19 for the repaired library, store rows):
where the conversion table says `store sv`, the chain stores a value with the content of `sv`. -/
theorem assignM_store (dk : DynKind) (old : Val) (s : Src) (nb : Bool) (sv : Val)
    (hs : specConv dk s = .store sv) (hwt : SrcWT s = true) :
    ∃ v', assignM fixedA dk old s nb = .ok v' ∧ valContentEq v' sv = true := by
  unfold specConv at hs
  split at hs
  · cases hs
  rename_i hfor
  simp only [Bool.or_eq_true, beq_iff_eq, not_or] at hfor
  split at hs
  · cases hs
  rename_i hnil
  have hnil' : s.v.isNilPtr = false := by simpa using hnil
  have h1 : (s.v.isNilPtr && s.kind != .foreign && !fixedA.nilSrcPanics) = false := by simp [hnil']
  have hkf : (s.kind == DynKind.foreign) = false := by simpa using hfor.1
  unfold assignM
  rw [h1]
  simp only [Bool.false_eq_true, if_false]
  generalize hf : s.kind.family = fam at hs ⊢
  cases dk <;> (try (exact absurd rfl hfor.2)) <;> cases fam <;> simp only [DynKind.family] at hs ⊢
  all_goals first | (cases hs; done) | skip
  all_goals (cases hv : s.v <;> simp [hv, srcText, specRender, Val.isNilPtr, renderSrc, hkf, fixedA] at hs hnil' ⊢)
  all_goals first
    | (subst hs; simp [valContentEq]; done)
    | (simp [SrcWT, hv, hf] at hwt; done)
    | (exact absurd (family_foreign _ hf) hfor.1)
    | skip
  -- what is left: decimal text into an integer or float destination
  all_goals first
    | (cases ha : atofM s with
       | none => simp [ha] at hs
       | some o =>
         cases o with
         | none => simp [ha] at hs
         | some fx =>
           simp only [ha] at hs ⊢
           injection hs with hs; subst hs
           exact ⟨_, rfl, by simp [valContentEq]⟩)
    | (split at hs
       · rename_i i ha
         simp only [ha]
         split at hs
         · rename_i hr
           injection hs with hs; subst hs
           refine ⟨_, rfl, ?_⟩
           first
             | rw [wrapS_of_inRange _ i (bits_pos _) hr]
             | rw [wrapU_of_inRange _ i hr]
           simp [valContentEq]
         · cases hs
       · cases hs)

theorem assignLeaf_fixed (n : Node) (old : Val) (s : Src) (nb : Bool) :
    ∃ v', assignLeaf GenCfg.fixed n old s nb = some v' ∧ vdepth v' ≤ max (vdepth old) 2 := by
  unfold assignLeaf
  have hA : ({ strAppendsOld := GenCfg.fixed.strAppendsOld, nilSrcPanics := GenCfg.fixed.assignNilSrcPanics } : AssignCfg) = fixedA := rfl
  simp only [hA]
  by_cases hp : n.ptr = true
  · simp only [hp, if_true]
    cases old with
    | ptr w =>
      simp only []
      have hnp := assignM_fixed_ne_panic (leafKind n) w s nb
      cases hm : assignM fixedA (leafKind n) w s nb with
      | ok w' =>
        have := assignM_ok_depth _ _ _ _ _ _ hm
        exact ⟨_, rfl, by simp only [vdepth]; omega⟩
      | no => exact ⟨_, rfl, by omega⟩
      | inexact => exact ⟨_, rfl, by omega⟩
      | panic => exact absurd hm hnp
    | _ => refine ⟨_, by simp only [GenCfg.fixed, Bool.false_and, Bool.false_eq_true, if_false]; rfl, by omega⟩
  · have hp' : n.ptr = false := by simpa using hp
    simp only [hp', Bool.false_eq_true, if_false]
    have hnp := assignM_fixed_ne_panic (leafKind n) old s nb
    cases hm : assignM fixedA (leafKind n) old s nb with
    | ok w' =>
      have := assignM_ok_depth _ _ _ _ _ _ hm
      exact ⟨_, rfl, by omega⟩
    | no => exact ⟨_, rfl, by omega⟩
    | inexact => exact ⟨_, rfl, by omega⟩
    | panic => exact absurd hm hnp

theorem assignLeaf_store (n : Node) (old : Val) (s : Src) (nb : Bool) (sv : Val) (hp : n.ptr = false)
    (hs : specConv (leafKind n) s = .store sv) (hwt : SrcWT s = true) :
    ∃ v', assignLeaf GenCfg.fixed n old s nb = some v' ∧ valContentEq v' sv = true := by
  unfold assignLeaf
  have hA : ({ strAppendsOld := GenCfg.fixed.strAppendsOld, nilSrcPanics := GenCfg.fixed.assignNilSrcPanics } : AssignCfg) = fixedA := rfl
  simp only [hA, hp, Bool.false_eq_true, if_false]
  obtain ⟨v', hm, hc⟩ := assignM_store (leafKind n) old s nb sv hs hwt
  rw [hm]
  exact ⟨v', rfl, hc⟩

end Inspector.C03
