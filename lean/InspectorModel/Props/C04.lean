/-
Props/C04.lean — property theorems for C04 (Compare equals the native comparison).
-/
import InspectorModel.Gen.Cmp
import InspectorModel.Spec.CmpSpec
namespace Inspector.C04

/-- Empty path: Compare returns at once and leaves the result untouched (compiler.go:367). -/
theorem empty_path (cfg : GenCfg) (n : Node) (f : Form) (v : Val) (op : Op) (r : Seg) :
    cmpM cfg n f v [] op r = .untouched := rfl

end Inspector.C04
