/-
Spec/Nav.lean — the specification side of C01/C04/C10: native navigation of a value along a path.
Written independently of `Gen/`; it never looks at how the emitter does things.
-/
import InspectorModel.Core.Lookup
namespace Inspector

/-- Where native navigation ends. `via` records that an absent map key was passed on the way: from
there on navigation continues in the element type's zero value ("for an absent map key only, the
element type's zero value"). -/
inductive NavR
  | found (r : Res) (via : Bool)
  /-- unknown field, index outside [0,len), nil pointer on the way -/
  | miss (via : Bool)
  /-- a key or index segment that cannot be parsed for its type -/
  | perr (via : Bool)
  /-- outside the property's domain (path continues past a scalar / bytes element, key out of the
      key type's range, key text the fixed-point model cannot name) -/
  | unspec
deriving Inhabited

/-- The key a segment denotes for a map key node, by the *property's* reading: parse the text for the
key's kind; it must fit the kind's range. Pointer-typed keys can never be denoted by text. -/
inductive KeyR
  | key (k : Val)
  | perr
  | unspec
  | never      -- pointer keys: no text denotes an existing entry

def specKey (k : Node) (s : Seg) : KeyR :=
  if k.ptr then
    -- the text still has to parse
    match kindOfName k.typu with
    | some (.sint _) => if s.pi.isSome then .never else .perr
    | some (.uint _) => if k.typn == "byte" || k.typu == "byte" then .never else if s.pu.isSome then .never else .perr
    | some (.float _) => (match s.pf with | .err => .perr | _ => .never)
    | some .bool => if s.pb.isSome then .never else .perr
    | some .string => .never
    | none => .unspec
  else
  match kindOfName k.typu with
  | some .string => .key (.str s.text)
  | some .bool => (match s.pb with | some b => .key (.bool b) | none => .perr)
  | some (.sint b) =>
      (match s.pi with
       | some i => if inRangeS b i then .key (.int i) else .unspec
       | none => .perr)
  | some (.uint b) =>
      if k.typn == "byte" || k.typu == "byte" then .unspec     -- the `byte` snippet takes the first byte of the text
      else
      (match s.pu with
       | some u => if inRangeU b u then .key (.uint u) else .unspec
       | none => .perr)
  | some (.float b) =>
      (match s.pf with
       | .ok fx => .key (.float (if b == 32 then roundF32 fx else fx))    -- Go conversion float32(t)
       | .inexact => .unspec
       | .err => .perr)
  | none => .unspec

/-- The value a (possibly pointer-typed) node's value denotes once the pointer is followed. -/
def targetOf (isPtr : Bool) (v : Val) : Val :=
  if isPtr then (match v with | .ptr w => w | w => w) else v

/-- Native navigation: struct field by name, map entry by parsed key, slice element by parsed index,
through non-nil pointers. -/
def navV (via : Bool) (n : Node) (v : Val) (p : List Seg) : NavR :=
  match p with
  | [] => .found ⟨n, v⟩ via
  | s :: rest =>
    -- a path that continues past a scalar, string or bytes element is outside the property
    if n.isLeaf then .unspec else
    if n.ptr && v.isNilPtr then .miss via else
    match n, targetOf n.ptr v with
    | .basic _, _ => .unspec
    | .struct _ chld, .struct fs =>
      (match findField chld fs s.text with
       | some (ch, fv) => navV via ch fv rest
       | none => .miss via)
    | .map _ k mv, .map _ ks vs =>
      (match specKey k s with
       | .perr => .perr via
       | .unspec => .unspec
       | .never => navV true mv (zeroVal mv) rest
       | .key key =>
         match lookupKey ks vs key with
         | some x => navV via mv x rest
         | none => navV true mv (zeroVal mv) rest)
    | .slice i e, .slice _ es _ =>
      if i.typn == "[]byte" then .unspec else
      (match s.pi with
       | none => .perr via
       | some idx =>
         if 0 ≤ idx ∧ idx < es.length then
           (match nth? es idx.toNat with
            | some x => navV via e x rest
            | none => .miss via)
         else .miss via)
    | .slice _ _, .bytes _ _ _ => .unspec
    | _, _ => .unspec

def nav (n : Node) (v : Val) (p : List Seg) : NavR := navV false n v p

/-- C01's acceptance relation between where navigation ends and what Get/GetTo answered. -/
def getAccepts (r : NavR) (o : GetOut) : Bool :=
  match r with
  | .found res via =>
      o == res.out ||
      -- a path that ends on a nil pointer may also yield nothing; so may anything behind an absent key
      ((res.val.strip.isNilPtr || via) && o == .none)
  | .miss _ => o == .none
  | .perr via => o == .err || (via && o == .none)
  | .unspec => true

end Inspector
