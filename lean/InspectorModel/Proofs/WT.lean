/-
Proofs/WT.lean — helper lemmas: inversion of well-typedness, and that lookups preserve it.
-/
import InspectorModel.Core.WF
import InspectorModel.Core.Lookup
import InspectorModel.Gen.Get
namespace Inspector

@[simp] theorem withPtr_ptr (n : Node) (b : Bool) : (n.withPtr b).ptr = b := by
  cases n <;> simp [Node.withPtr, Node.ptr, Node.info]

theorem WT_nilptr (n : Node) : WT n .nilptr = n.ptr := by
  cases n <;> simp [WT]

theorem WT_ptr (n : Node) (w : Val) : WT n (.ptr w) = (n.ptr && WT (n.withPtr false) w) := by
  cases n <;> simp [WT]

/-- A well-typed value of a pointer-typed node is nil or a pointer; of a non-pointer node it is neither. -/
theorem WT_ptr_cases (n : Node) (v : Val) (h : WT n v = true) :
    (n.ptr = true ∧ (v = .nilptr ∨ ∃ w, v = .ptr w ∧ WT (n.withPtr false) w = true)) ∨
    (n.ptr = false ∧ v ≠ .nilptr ∧ ∀ w, v ≠ .ptr w) := by
  cases v with
  | nilptr => left; rw [WT_nilptr] at h; exact ⟨h, Or.inl rfl⟩
  | ptr w =>
    left
    rw [WT_ptr] at h
    simp only [Bool.and_eq_true] at h
    exact ⟨h.1, Or.inr ⟨w, rfl, h.2⟩⟩
  | _ =>
    right
    refine ⟨?_, by simp, by simp⟩
    cases n <;> simp_all [WT, Node.ptr, Node.info]

theorem withPtr_false_of_not_ptr (n : Node) (h : n.ptr = false) : n.withPtr false = n := by
  cases n with
  | basic i => cases i; simp_all [Node.withPtr, Node.ptr, Node.info]
  | struct i c => cases i; simp_all [Node.withPtr, Node.ptr, Node.info]
  | map i k v => cases i; simp_all [Node.withPtr, Node.ptr, Node.info]
  | slice i e => cases i; simp_all [Node.withPtr, Node.ptr, Node.info]

/-- The value a node's variable refers to after the emitted nil guard and dereference. -/
theorem WT_deref (n : Node) (v : Val) (h : WT n v = true) (hnn : (n.ptr && v.isNilPtr) = false) :
    WT (n.withPtr false) (derefIf n.ptr v) = true := by
  rcases WT_ptr_cases n v h with ⟨hp, hv⟩ | ⟨hp, _, _⟩
  · rcases hv with hv | ⟨w, hv, hw⟩
    · subst hv; simp [hp, Val.isNilPtr] at hnn
    · subst hv; simp [derefIf, hp, hw]
  · have : n.withPtr false = n := withPtr_false_of_not_ptr n hp
    simp [derefIf, hp, this, h]

theorem withPtr_struct (i : Info) (c : List Node) (b : Bool) : (Node.struct i c).withPtr b = .struct { i with ptr := b } c := rfl
theorem withPtr_map (i : Info) (k v : Node) (b : Bool) : (Node.map i k v).withPtr b = .map { i with ptr := b } k v := rfl
theorem withPtr_slice (i : Info) (e : Node) (b : Bool) : (Node.slice i e).withPtr b = .slice { i with ptr := b } e := rfl
theorem withPtr_basic (i : Info) (b : Bool) : (Node.basic i).withPtr b = .basic { i with ptr := b } := rfl

theorem WT_struct_inv (i : Info) (chld : List Node) (w : Val) (hi : i.ptr = false)
    (h : WT (.struct i chld) w = true) : ∃ fs, w = .struct fs ∧ WTs chld fs = true := by
  cases w <;> simp_all [WT, Node.ptr, Node.info]

theorem WT_map_inv (i : Info) (k mv : Node) (w : Val) (hi : i.ptr = false)
    (h : WT (.map i k mv) w = true) :
    ∃ nl ks vs, w = .map nl ks vs ∧ ks.length = vs.length ∧ WTall k ks = true ∧ WTall mv vs = true := by
  cases w with
  | map nl ks vs =>
    refine ⟨nl, ks, vs, rfl, ?_⟩
    simp [WT, hi] at h
    exact ⟨h.1.1, h.1.2, h.2⟩
  | _ => simp_all [WT, Node.ptr, Node.info]

theorem WT_slice_inv (i : Info) (e : Node) (w : Val) (hi : i.ptr = false) (hb : (i.typn == "[]byte") = false)
    (h : WT (.slice i e) w = true) : ∃ nl es c, w = .slice nl es c ∧ WTall e es = true := by
  cases w with
  | slice nl es c =>
    refine ⟨nl, es, c, rfl, ?_⟩
    simp [WT, hi] at h
    exact h.2
  | _ => simp_all [WT, Node.ptr, Node.info]

theorem findField_WT (chld : List Node) (fs : List Val) (name : Bytes) (ch : Node) (fv : Val)
    (h : WTs chld fs = true) (hf : findField chld fs name = some (ch, fv)) : WT ch fv = true ∧ ch ∈ chld := by
  induction chld generalizing fs with
  | nil => cases fs <;> simp [findField] at hf
  | cons c cs ih =>
    cases fs with
    | nil => simp [findField] at hf
    | cons f fs' =>
      simp only [WTs, Bool.and_eq_true] at h
      unfold findField at hf
      split at hf
      · injection hf with hf; injection hf with h1 h2; subst h1; subst h2
        exact ⟨h.1, by simp⟩
      · obtain ⟨hw, hm⟩ := ih fs' h.2 hf
        exact ⟨hw, by simp [hm]⟩

theorem lookupKey_WT (mv : Node) (ks vs : List Val) (key x : Val)
    (h : WTall mv vs = true) (hf : lookupKey ks vs key = some x) : WT mv x = true := by
  induction ks generalizing vs with
  | nil => cases vs <;> simp [lookupKey] at hf
  | cons k ks' ih =>
    cases vs with
    | nil => simp [lookupKey] at hf
    | cons v vs' =>
      simp only [WTall, Bool.and_eq_true] at h
      unfold lookupKey at hf
      split at hf
      · injection hf with hf; subst hf; exact h.1
      · exact ih vs' h.2 hf

theorem nth?_WT (e : Node) (es : List Val) (i : Nat) (x : Val)
    (h : WTall e es = true) (hf : nth? es i = some x) : WT e x = true := by
  induction es generalizing i with
  | nil => simp [nth?] at hf
  | cons v vs ih =>
    simp only [WTall, Bool.and_eq_true] at h
    cases i with
    | zero => simp [nth?] at hf; subst hf; exact h.1
    | succ j => simp [nth?] at hf; exact ih j h.2 hf

theorem nth?_some_of_lt (es : List Val) (i : Nat) (h : i < es.length) : ∃ x, nth? es i = some x := by
  induction es generalizing i with
  | nil => simp at h
  | cons v vs ih =>
    cases i with
    | zero => exact ⟨v, rfl⟩
    | succ j => simp [nth?]; exact ih j (by simpa using h)



theorem wtScalar_zero (k : Kind) : wtScalar k (zeroOfKind k) = true := by
  cases k with
  | bool => rfl
  | sint b =>
    simp only [zeroOfKind, wtScalar, inRangeS, Bool.and_eq_true, decide_eq_true_eq]
    have : (0 : Int) < (2 : Int) ^ (b - 1) := Int.pow_pos (by decide)
    omega
  | uint b =>
    simp only [zeroOfKind, wtScalar, inRangeU, decide_eq_true_eq]
    exact Nat.pow_pos (by decide)
  | float b => rfl
  | string => rfl

mutual
/-- The zero value of a well-formed type is well-typed. -/
theorem WT_zeroVal : ∀ (n : Node), NodeWF n = true → WT n (zeroVal n) = true
  | .basic i, h => by
    simp only [NodeWF, Bool.and_eq_true] at h
    unfold zeroVal
    by_cases hp : i.ptr = true
    · simp [hp, WT_nilptr, Node.ptr, Node.info]
    · have hp' : i.ptr = false := by simpa using hp
      simp only [hp', Bool.false_eq_true, if_false]
      cases hk : kindOfName i.typu with
      | none => simp [hk] at h
      | some k =>
        have := wtScalar_zero k
        cases k <;> simp_all [WT, zeroOfKind, Node.ptr, Node.info]
  | .struct i ch, h => by
    simp only [NodeWF] at h
    unfold zeroVal
    by_cases hp : i.ptr = true
    · simp [hp, WT_nilptr, Node.ptr, Node.info]
    · have hp' : i.ptr = false := by simpa using hp
      simp [hp', WT, WTs_zeroVals ch h]
  | .map i k v, _ => by
    unfold zeroVal
    by_cases hp : i.ptr = true
    · simp [hp, WT_nilptr, Node.ptr, Node.info]
    · have hp' : i.ptr = false := by simpa using hp
      simp [hp', WT, WTall]
  | .slice i e, _ => by
    unfold zeroVal
    by_cases hp : i.ptr = true
    · simp [hp, WT_nilptr, Node.ptr, Node.info]
    · have hp' : i.ptr = false := by simpa using hp
      by_cases hb : (i.typn == "[]byte") = true
      · simp [hp', hb, WT]
      · have hb' : (i.typn == "[]byte") = false := by simpa using hb
        simp [hp', hb', WT, WTall]
        simpa using hb'
theorem WTs_zeroVals : ∀ (ns : List Node), NodeWFs ns = true → WTs ns (zeroVals ns) = true
  | [], _ => by simp [zeroVals, WTs]
  | n :: ns, h => by
    simp only [NodeWFs, Bool.and_eq_true] at h
    simp [zeroVals, WTs, WT_zeroVal n h.1, WTs_zeroVals ns h.2]
end

end Inspector
