/-
Gen/Alias.lean — C15: does the reference GetTo hands out alias the live element? Mirrors the address-of
decisions of get mode (compiler.go:693-695, 713-721, 917-921, 939-941): `&v.f`, `&s[i]` are references
into the object; `x := m[k]` and `x := s[i]` (pointer or builtin element) are local copies.
-/
import InspectorModel.Gen.Get
namespace Inspector

/-- `live`: the variable holding the current node's value is memory of the object itself (for a
pointer-typed node: irrelevant — its target always is). Result: `some b` when a leaf is handed out
(b = writing through the reference shows in the object), `none` otherwise. -/
def aliasN (n : Node) (v : Val) (p : List Seg) (live : Bool) : Option Bool :=
  if n.ptr && v.isNilPtr then none else
  let live := if n.ptr then true else live
  let w := derefIf n.ptr v
  match n with
  | .basic _ => some live
  | .slice i e =>
    if i.typn == "[]byte" then some live else
    (match p, w with
     | [], _ => some live                      -- the path ends on the slice itself: `&v.f` / the element variable
     | s :: rest, .slice _ es _ =>
       (match s.pi with
        | some idx =>
          if 0 ≤ idx ∧ idx < es.length then
            (match nth? es idx.toNat with
             | some x => aliasN e x rest (!(e.ptr || isBuiltinName e.typn) || e.ptr)
             | none => none)
          else none
        | none => none)
     | _, _ => none)
  | .map _ k mv =>
    (match p, w with
     | [], _ => some live
     | s :: rest, .map _ ks vs =>
       if k.ptr then none else
       (match (if k.typn == "string" then some (Conv.ok (.str s.text)) else convSeg k.typn k.typu s) with
        | some (.ok key) =>
          (match lookupKey ks vs key with
           | some x => aliasN mv x rest false
           | none => none)
        | _ => none)
     | _, _ => none)
  | .struct _ chld =>
    (match p, w with
     | [], _ => some live
     | s :: rest, .struct fs =>
       (match findField chld fs s.text with
        -- a pointer leaf: the write goes through the pointer, whose target is the object's own even when the
        -- struct holding the pointer is a local copy (a struct held by value in a map)
        | some (ch, fv) => if ch.isLeaf then (if ch.ptr && fv.isNilPtr then none else some (live || ch.ptr)) else aliasN ch fv rest live
        | none => none)
     | _, _ => none)
termination_by structural p

/-- The path class of C15: struct fields, pointer dereferences and struct-slice indices only, ending on an existing
element — a scalar / string / bytes leaf, or a struct, slice or map reached that way (not behind a nil pointer). -/
def inAliasClass (n : Node) (v : Val) (p : List Seg) : Bool :=
  if n.ptr && v.isNilPtr then false else
  let w := derefIf n.ptr v
  match n with
  | .basic _ => p.isEmpty
  | .slice i e =>
    if i.typn == "[]byte" then p.isEmpty else
    (match e with
     | .struct _ _ =>
       (match p, w with
        | [], _ => true                          -- the path ends on the slice itself
        | s :: rest, .slice _ es _ =>
          (match s.pi with
           | some idx => if 0 ≤ idx ∧ idx < es.length then (match nth? es idx.toNat with | some x => inAliasClass e x rest | none => false) else false
           | none => false)
        | _, _ => false)
     | _ => p.isEmpty)                           -- a slice of anything else: the class ends here
  | .map _ _ _ => p.isEmpty                      -- the path may end on a map, not pass through it
  | .struct _ chld =>
    (match p, w with
     | [], _ => true                             -- the path ends on the struct itself
     | s :: rest, .struct fs =>
       (match findField chld fs s.text with
        | some (ch, fv) => if ch.isLeaf then rest.isEmpty && !(ch.ptr && fv.isNilPtr) else inAliasClass ch fv rest
        | none => false)
     | _, _ => false)
termination_by structural p

end Inspector
