package corr

import (
	"encoding/hex"
	"reflect"
	"strconv"
	"unsafe"

	"github.com/koykov/inspector"
)

var kindTypes = map[string]reflect.Type{
	"bool": reflect.TypeOf(false), "int": reflect.TypeOf(int(0)), "int8": reflect.TypeOf(int8(0)), "int16": reflect.TypeOf(int16(0)),
	"int32": reflect.TypeOf(int32(0)), "int64": reflect.TypeOf(int64(0)), "uint": reflect.TypeOf(uint(0)), "uint8": reflect.TypeOf(uint8(0)),
	"uint16": reflect.TypeOf(uint16(0)), "uint32": reflect.TypeOf(uint32(0)), "uint64": reflect.TypeOf(uint64(0)),
	"float32": reflect.TypeOf(float32(0)), "float64": reflect.TypeOf(float64(0)), "string": reflect.TypeOf(""), "[]byte": reflect.TypeOf([]byte(nil)),
}

var KindNames = []string{"bool", "int", "int8", "int16", "int32", "int64", "uint", "uint8", "uint16", "uint32", "uint64", "float32", "float64", "string", "[]byte"}

// SrcSpec describes an assigned value / operand: dynamic kind, form (v, p, pn = nil pointer, foreign), value.
type SrcSpec struct {
	Kind string
	Form string
	V    reflect.Value // of kindTypes[Kind]; invalid for pn / foreign
	Own  reflect.Type  // Form "ownnilp": a typed-nil pointer to this (struct / map / slice) type
	OwnV reflect.Value // Form "ownp": a pointer to a deep copy of the addressed element's current value
}

// Any builds the `any` the API receives.
func (s SrcSpec) Any() any {
	switch s.Form {
	case "foreign":
		return foreignT{X: 7}
	case "foreignp":
		return &foreignT{X: 7}
	case "ownnilp":
		return reflect.Zero(reflect.PointerTo(s.Own)).Interface()
	case "ownp":
		p := reflect.New(s.Own)
		p.Elem().Set(DeepCopy(s.OwnV))
		return p.Interface()
	case "pn":
		return reflect.Zero(reflect.PointerTo(kindTypes[s.Kind])).Interface()
	case "p":
		p := reflect.New(kindTypes[s.Kind])
		p.Elem().Set(s.V)
		return p.Interface()
	default:
		return s.V.Interface()
	}
}

// Toks: <kind> <form> <val> <ftext-hex> <pf>
func (s SrcSpec) Toks() string {
	if s.Form == "foreign" || s.Form == "foreignp" || s.Form == "ownnilp" || s.Form == "ownp" {
		// a pointer to the addressed container's own type matches the emitted `value.(*T)` assertion and nothing else.
		// Typed nil: ignored. Non-nil ("ownp"): the node is replaced by the pointed-to value — the harness passes a
		// deep copy of the element's CURRENT value, so the replacement is invisible and the model can go on treating
		// the value like one no arm takes (what is exercised: no panic, nothing off the path changes)
		return "foreign " + s.Form + " - h e"
	}
	if s.Form == "pn" {
		return kindTok(s.Kind) + " pn Pn h e"
	}
	ftext, pf := "h", "e"
	switch s.V.Kind() {
	case reflect.Float32, reflect.Float64:
		ftext = "h" + hex.EncodeToString(strconv.AppendFloat(nil, s.V.Float(), 'f', -1, 64))
	case reflect.String:
		pf = pfTok(s.V.String())
	case reflect.Slice:
		pf = pfTok(string(s.V.Bytes()))
	}
	return kindTok(s.Kind) + " " + s.Form + " " + Ser(s.V) + " " + ftext + " " + pf
}

func kindTok(k string) string {
	if k == "[]byte" {
		return "bytes"
	}
	return k
}

func pfTok(s string) string {
	if v, err := strconv.ParseFloat(s, 64); err == nil {
		if fx, ok := FxOf(v); ok {
			return strconv.FormatInt(fx, 10)
		}
		return "x"
	}
	return "e"
}

var assignTexts = []string{"", "0", "5", "-5", "+5", "007", "127", "128", "-128", "-129", "255", "256", "32767", "65536", "2147483647", "2147483648",
	"9223372036854775807", "9223372036854775808", "-9223372036854775808", "18446744073709551615", "18446744073709551616",
	"1.5", "-0.25", ".5", "5.", "1e2", "1E-2", "1e", "e5", "0x10", "1_000", " 5", "5 ", "true", "false", "True", "abc", "nil", "١٢", "1.5.2", "--5", "+", "-",
	"3.14159", "1e400", "Inf", "NaN", "12a", "0.0009765625", "1048576.5",
	// exact in the fixed-point oracle and in float64, not representable in float32
	"16777217", "-33554435", "268435457.25", "4294967297.5", "1099511627777", "-0.000000953674316"}

// GenSrc proposes a source of the given kind.
func GenSrc(r *Rng, kind string) SrcSpec {
	t := kindTypes[kind]
	v := reflect.New(t).Elem()
	switch t.Kind() {
	case reflect.String:
		v.SetString(assignTexts[r.Intn(len(assignTexts))])
	case reflect.Slice:
		s := assignTexts[r.Intn(len(assignTexts))]
		if r.Chance(1, 12) {
			v.Set(reflect.Zero(t))
		} else {
			v.SetBytes([]byte(s))
		}
	default:
		g := NewGen(r, ProfRandom)
		g.cnt = int64(r.Intn(100000))
		g.scalar(v)
		if r.Chance(1, 4) {
			zero := reflect.Zero(t)
			v.Set(zero)
		}
	}
	form := "v"
	switch r.Intn(10) {
	case 0, 1, 2, 3:
		form = "p"
	case 4:
		if r.Chance(1, 3) {
			form = "pn"
		}
	}
	return SrcSpec{Kind: kind, Form: form, V: v}
}

func inBuffer(b *inspector.ByteBuffer, p uintptr, n int) string {
	if b == nil || n == 0 {
		return "-"
	}
	bb := b.AcquireBytes()
	if cap(bb) == 0 {
		return "0"
	}
	lo := uintptr(unsafe.Pointer(unsafe.SliceData(bb[:1])))
	hi := lo + uintptr(cap(bb))
	if p >= lo && p+uintptr(n) <= hi {
		return "1"
	}
	return "0"
}

// OpAssign emits one `A` record: AssignBuf(&dst, src, buf) for a destination of kind dk holding old.
// bufMode: none (Assign), empty, filled.
func OpAssign(o *Out, dk string, old reflect.Value, src SrcSpec, bufMode string) {
	dst := reflect.New(kindTypes[dk])
	dst.Elem().Set(DeepCopyScalar(old))
	var buf *inspector.ByteBuffer
	prefix := "prefix-bytes"
	switch bufMode {
	case "empty":
		buf = &inspector.ByteBuffer{}
	case "filled":
		buf = inspector.NewByteBuffer(8)
		buf.Bufferize([]byte(prefix))
	}
	var out string
	func() {
		defer func() {
			if r := recover(); r != nil {
				out = "panic"
			}
		}()
		var ok bool
		if buf == nil {
			ok = inspector.Assign(dst.Interface(), src.Any())
		} else {
			ok = inspector.AssignBuf(dst.Interface(), src.Any(), buf)
		}
		in := "-"
		switch dst.Elem().Kind() {
		case reflect.String:
			if str := dst.Elem().String(); len(str) > 0 {
				in = inBuffer(buf, uintptr(unsafe.Pointer(unsafe.StringData(str))), len(str))
			}
		case reflect.Slice:
			if dst.Elem().Len() > 0 {
				in = inBuffer(buf, dst.Elem().Pointer(), dst.Elem().Len())
			}
		}
		keep := "1"
		if bufMode == "filled" && string(buf.AcquireBytes()[:len(prefix)]) != prefix {
			keep = "0"
		}
		out = "ret" + b01(ok) + " " + in + " " + keep + " " + Ser(dst.Elem())
	}()
	o.Op("A " + kindTok(dk) + " " + Ser(old) + " | " + src.Toks() + " | " + bufMode + " | " + out)
}

// DeepCopyScalar copies a scalar / string / bytes value.
func DeepCopyScalar(v reflect.Value) reflect.Value {
	if v.Kind() == reflect.Slice && !v.IsNil() {
		c := reflect.MakeSlice(v.Type(), v.Len(), v.Cap())
		reflect.Copy(c, v)
		return c
	}
	return v
}
