/-
Proofs/CopyLists.lean — association-list facts (mapSet / lookupKey under distinct keys) and the list-level
facts of the specification functions (eqS family, approxEq family) for pointwise related lists.
-/
import InspectorModel.Proofs.CopyBase
set_option linter.unusedSimpArgs false
set_option linter.unusedVariables false
namespace Inspector.CopyPf

theorem beq_self (k : Val) : (k == k) = true := Val.beq_refl k

theorem keyFresh_iff (k : Val) : ∀ (ys : List Val), keyFresh k ys = true ↔ ∀ y ∈ ys, (k == y) = false
  | [] => by simp [keyFresh]
  | y :: ys => by
    simp only [keyFresh, Bool.and_eq_true, List.mem_cons, forall_eq_or_imp, keyFresh_iff k ys]
    constructor
    · intro h; exact ⟨by simpa using h.1, h.2⟩
    · intro h; exact ⟨by simpa using h.1, h.2⟩

theorem mapSet_fresh : ∀ (lks lvs : List Val) (k v : Val), lks.length = lvs.length →
    (∀ x ∈ lks, (x == k) = false) → mapSet lks lvs k v = (lks ++ [k], lvs ++ [v])
  | [], [], _, _, _, _ => by simp [mapSet]
  | [], _ :: _, _, _, h, _ => by simp at h
  | _ :: _, [], _, _, h, _ => by simp at h
  | x :: xs, y :: ys, k, v, hl, hf => by
    have hx : (x == k) = false := hf x (by simp)
    have ih := mapSet_fresh xs ys k v (by simpa using hl) (fun z hz => hf z (by simp [hz]))
    simp [mapSet, hx, ih]

theorem lookupKey_append_fresh : ∀ (pre prev : List Val) (k v : Val) (ks vs : List Val), pre.length = prev.length →
    (∀ x ∈ pre, (x == k) = false) → lookupKey (pre ++ k :: ks) (prev ++ v :: vs) k = some v
  | [], [], k, v, ks, vs, _, _ => by simp [lookupKey, beq_self]
  | [], _ :: _, _, _, _, _, h, _ => by simp at h
  | _ :: _, [], _, _, _, _, h, _ => by simp at h
  | x :: xs, y :: ys, k, v, ks, vs, hl, hf => by
    have hx : (x == k) = false := hf x (by simp)
    have ih := lookupKey_append_fresh xs ys k v ks vs (by simpa using hl) (fun z hz => hf z (by simp [hz]))
    simp [lookupKey, hx, ih]

/-! ### three-valued verdicts -/
/-- `must`, or `either` where the type has a pointer-keyed map (`hp`). -/
def triOK (hp : Bool) : Tri → Bool
  | .must => true
  | .either => hp
  | .mustNot => false

theorem triOK_and (h1 h2 : Bool) (a b : Tri) (ha : triOK h1 a = true) (hb : triOK h2 b = true) :
    triOK (h1 || h2) (a.and b) = true := by
  cases a <;> cases b <;> cases h1 <;> cases h2 <;> simp_all [triOK, Tri.and]

theorem triOK_false (t : Tri) (h : triOK false t = true) : t = .must := by
  cases t <;> simp_all [triOK]

theorem triOK_ne (hp : Bool) (t : Tri) (h : triOK hp t = true) : (t != .mustNot) = true := by
  cases t <;> simp_all [triOK] <;> decide

theorem triOK_must (hp : Bool) : triOK hp .must = true := rfl

theorem triOK_weaken (h1 h2 : Bool) (t : Tri) (h : triOK h1 t = true) (himp : h1 = true → h2 = true) : triOK h2 t = true := by
  cases t <;> simp_all [triOK]

/-! ### lists related pointwise -/
/-- Map values / slice elements of the source and of the copy, position by position. -/
def ElemR (strict : Bool) (e : Node) (x c : Val) : Prop :=
  WT e c = true ∧ (strict = true → approxEq x c = true) ∧ ∀ π, triOK (hasPtrKeyMap e) (eqS {} e π x c) = true

/-- Pointwise relation of two lists (core has no `Forall₂`). -/
inductive All2 (R : Val → Val → Prop) : List Val → List Val → Prop
  | nil : All2 R [] []
  | cons {a b : Val} {as bs : List Val} : R a b → All2 R as bs → All2 R (a :: as) (b :: bs)

theorem forall2_length {R : Val → Val → Prop} : ∀ {as bs : List Val}, All2 R as bs → as.length = bs.length
  | _, _, .nil => rfl
  | _, _, .cons _ h => by simp [forall2_length h]

theorem WTall_of_forall2 (strict : Bool) (e : Node) : ∀ {as bs : List Val}, All2 (ElemR strict e) as bs → WTall e bs = true
  | _, _, .nil => by simp [WTall]
  | _, _, .cons h t => by simp [WTall, h.1, WTall_of_forall2 strict e t]

theorem WTall_append (e : Node) : ∀ (as bs : List Val), WTall e as = true → WTall e bs = true → WTall e (as ++ bs) = true
  | [], bs, _, h => by simpa using h
  | a :: as, bs, h1, h2 => by
    simp only [WTall, Bool.and_eq_true, List.cons_append] at h1 ⊢
    exact ⟨h1.1, WTall_append e as bs h1.2 h2⟩

theorem eqElems_ok (strict : Bool) (e : Node) (π : String) : ∀ {as bs : List Val}, All2 (ElemR strict e) as bs →
    triOK (hasPtrKeyMap e) (eqElems {} e π as bs) = true
  | _, _, .nil => by simp [eqElems, triOK]
  | _, _, .cons h t => by
    simp only [eqElems]
    have := triOK_and _ _ _ _ (h.2.2 π) (eqElems_ok strict e π t)
    simpa using this

theorem approxEqList_ok (e : Node) : ∀ {as bs : List Val}, All2 (ElemR true e) as bs → approxEqList as bs = true
  | _, _, .nil => by simp [approxEqList]
  | _, _, .cons h t => by simp [approxEqList, h.2.1 rfl, approxEqList_ok e t]

theorem eqMapVals_ok (strict : Bool) (mv : Node) (π : String) : ∀ (avs aks cvs pre prev : List Val),
    aks.length = avs.length → pre.length = prev.length →
    (∀ x ∈ pre, ∀ y ∈ aks, (x == y) = false) → distinctKeys aks = true →
    All2 (ElemR strict mv) avs cvs →
    triOK (hasPtrKeyMap mv) (eqMapVals {} mv π aks avs (pre ++ aks) (prev ++ cvs)) = true
  | [], _, _, _, _, _, _, _, _, _ => by simp [eqMapVals, triOK]
  | av :: avs, [], _, _, _, h, _, _, _, _ => by simp at h
  | av :: avs, ak :: aks, cvs, pre, prev, hl, hp, hf, hd, hr => by
    cases hr with
    | cons h t =>
      rename_i cv cvs'
      simp only [distinctKeys, Bool.and_eq_true] at hd
      have hlk := lookupKey_append_fresh pre prev ak cv aks cvs' hp (fun x hx => hf x hx ak (by simp))
      have hfresh := (keyFresh_iff ak aks).1 hd.1
      have ih := eqMapVals_ok strict mv π avs aks cvs' (pre ++ [ak]) (prev ++ [cv]) (by simpa using hl) (by simp [hp])
        (by
          intro x hx y hy
          rcases List.mem_append.1 hx with hx | hx
          · exact hf x hx y (by simp [hy])
          · have : x = ak := by simpa using hx
            subst this; exact hfresh y hy)
        hd.2 t
      simp only [List.append_assoc, List.singleton_append] at ih
      simp only [eqMapVals, hlk]
      have := triOK_and _ _ _ _ (h.2.2 π) ih
      simpa using this

theorem approxEqMap_ok (mv : Node) : ∀ (avs aks cvs pre prev : List Val),
    aks.length = avs.length → pre.length = prev.length →
    (∀ x ∈ pre, ∀ y ∈ aks, (x == y) = false) → distinctKeys aks = true →
    All2 (ElemR true mv) avs cvs →
    approxEqMap aks avs (pre ++ aks) (prev ++ cvs) = true
  | [], _, _, _, _, _, _, _, _, _ => by simp [approxEqMap]
  | av :: avs, [], _, _, _, h, _, _, _, _ => by simp at h
  | av :: avs, ak :: aks, cvs, pre, prev, hl, hp, hf, hd, hr => by
    cases hr with
    | cons h t =>
      rename_i cv cvs'
      simp only [distinctKeys, Bool.and_eq_true] at hd
      have hlk := lookupKey_append_fresh pre prev ak cv aks cvs' hp (fun x hx => hf x hx ak (by simp))
      have hfresh := (keyFresh_iff ak aks).1 hd.1
      have ih := approxEqMap_ok mv avs aks cvs' (pre ++ [ak]) (prev ++ [cv]) (by simpa using hl) (by simp [hp])
        (by
          intro x hx y hy
          rcases List.mem_append.1 hx with hx | hx
          · exact hf x hx y (by simp [hy])
          · have : x = ak := by simpa using hx
            subst this; exact hfresh y hy)
        hd.2 t
      simp only [List.append_assoc, List.singleton_append] at ih
      simp [approxEqMap, hlk, h.2.1 rfl, ih]

end Inspector.CopyPf
