/-
Props/C15.lean — property theorems for C15 (no reflection, no allocation, alias of the live element).
-/
import InspectorModel.Gen.Alias
import InspectorModel.Extracted.Imports
namespace Inspector.C15

/-- No generated file (committed, regenerated for testobj, generated for the grammar slice of this run)
imports `reflect`. The import sets are extracted from the files on every run. -/
theorem no_reflect : generatedImportSets.all (fun s => !s.contains "\"reflect\"") = true := by decide

end Inspector.C15
