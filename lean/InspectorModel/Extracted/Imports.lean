-- regenerated on every run (gengram -phase facts): distinct import sets of the generated inspector files
namespace Inspector
def generatedImportSets : List (List String) := [
  ["\"bytes\"", "\"encoding/json\"", "\"gen/decl\"", "\"github.com/koykov/byteconv\"", "\"github.com/koykov/inspector\""],
  ["\"bytes\"", "\"encoding/json\"", "\"gen/decl\"", "\"github.com/koykov/byteconv\"", "\"github.com/koykov/inspector\"", "\"strconv\""],
  ["\"bytes\"", "\"encoding/json\"", "\"gen/decl\"", "\"github.com/koykov/inspector\""],
  ["\"bytes\"", "\"encoding/json\"", "\"github.com/koykov/byteconv\"", "\"github.com/koykov/inspector\"", "\"github.com/koykov/inspector/testobj\"", "\"strconv\""],
  ["\"encoding/json\"", "\"gen/decl\"", "\"github.com/koykov/byteconv\"", "\"github.com/koykov/inspector\""],
  ["\"encoding/json\"", "\"gen/decl\"", "\"github.com/koykov/inspector\""],
  ["\"encoding/json\"", "\"gen/decl\"", "\"github.com/koykov/inspector\"", "\"strconv\""],
  ["\"encoding/json\"", "\"github.com/koykov/inspector\"", "\"github.com/koykov/inspector/testobj\""],
  ["\"encoding/json\"", "\"github.com/koykov/inspector\"", "\"github.com/koykov/inspector/testobj\"", "\"strconv\""]
]
def generatedFilesScanned : Nat := 488
end Inspector
