/-
Props/C04.lean — property theorems for C04 (Compare equals the native comparison).

`cmp_correct`: for the repaired emitter model, every well-formed tree whose inspector compiles (`EmitOK`),
every well-typed value, every path, operator and operand, what Compare does to `*result` is accepted by
the independent specification `cmpAccepts` — the native comparison of the element native navigation
reaches. The model of the current tree differs on the classes `nil-intercept`, `negative-index`,
`elem-nil-cmp`, `nil-root-panics` (`repo_not_correct`).
`section CurrentTree`: since the `fix:` commits no switch compare mode reads is left on in `GenCfg.repo`
(`cmpN_repo`, `cmpM_repo`), so C04 holds of the emitter as it stands (`cmp_current`, `cmp_nil_root_current`).
-/
import InspectorModel.Proofs.C04
namespace Inspector.C04

/-- Empty path: Compare returns at once and leaves the result untouched (compiler.go:367). -/
theorem empty_path (cfg : GenCfg) (n : Node) (f : Form) (v : Val) (op : Op) (r : Seg) :
    cmpM cfg n f v [] op r = .untouched := rfl

/-- C04 for the repaired emitter. -/
theorem cmp_correct (n : Node) (v : Val) (p : List Seg) (op : Op) (right : Seg) (f : Form)
    (hf : rootOf f = .ok) (hroot : RootOK n = true) (hwf : NodeWF n = true) (hok : EmitOK n = true)
    (hwt : WT n v = true) :
    cmpAccepts n v p op right (cmpM GenCfg.fixed n f v p op right) = true := by
  have hr : rootOfC GenCfg.fixed f = .ok := by
    unfold rootOfC
    rw [hf]
  unfold cmpAccepts cmpM nav
  cases p with
  | nil =>
    simp only [navV, cmpAcceptsNav]
    rw [Bool.or_eq_true]; left
    apply untouched_ok
    right
    simpa [RootOK] using hroot
  | cons s rest =>
    simp only [hr]
    exact cmpN_correct op right (s :: rest) n v false hwf hwt hok (fun h => by cases h)

/-- The six operators on an ordered scalar are computed as the native comparison (the leaf step). -/
theorem six_way_native (op : Op) (l r : Val) (b lt gt : Bool) (h : nativeCmp op l r = some b)
    (hlt : valLt l r = some lt) (hgt : valLt r l = some gt) : cmpSix op l r = .set b :=
  cmpSix_native op l r b lt gt h hlt hgt

/-- A typed-nil root is refused by the repaired emitter: result untouched, no panic. -/
theorem cmp_nil_root (n : Node) (v : Val) (p : List Seg) (op : Op) (right : Seg) (f : Form) (hf : rootOf f ≠ .ok) :
    cmpM GenCfg.fixed n f v p op right = .untouched := by
  cases p with
  | nil => rfl
  | cons s rest => cases f <;> simp [rootOf] at hf <;> rfl

section NonVacuity
/-- `struct { A int; P *struct{ B string } }` with `A = 5`, `P = &{B: "nil"}`. -/
def exNode : Node :=
  .struct { typn := "T" } [
    .basic { typn := "int", typu := "int", name := "A" },
    .struct { typn := "Inner", name := "P", ptr := true } [.basic { typn := "string", typu := "string", name := "B" }]]
def exVal : Val := .struct [.int 5, .ptr (.struct [.str (strBytes "nil")])]
def seg (t : String) (pi : Option Int := none) : Seg := { text := strBytes t, pi := pi }

example : RootOK exNode = true ∧ NodeWF exNode = true ∧ EmitOK exNode = true ∧ WT exNode exVal = true := by decide
example : cmpM GenCfg.fixed exNode .ptr exVal [seg "A"] 3 (seg "4" (some 4)) = .set true := by decide
/-- Known finding `nil-intercept`: with the operand `nil`, the emitted code of the tree at the pinned commit (GenCfg.original; since repaired by a `fix:` commit) answered
for the pointer field `P` itself although the path continues to `P.B`. -/
theorem repo_not_correct :
    cmpAccepts exNode exVal [seg "P", seg "B"] 1 (seg "nil") (cmpM GenCfg.original exNode .ptr exVal [seg "P", seg "B"] 1 (seg "nil")) = false := by
  decide
end NonVacuity

/-! ### The tree as it is now

After the generator `fix:` commits (negative index, nil-intercept, element nil compare, typed-nil roots) no
switch that compare mode consults is left on in `GenCfg.repo`: the model of the current tree *is* the repaired
model, for every argument form. -/
section CurrentTree

theorem cmpN_repo (op : Op) (right : Seg) (p : List Seg) : ∀ (n : Node) (v : Val),
    cmpN GenCfg.repo n v p op right = cmpN GenCfg.fixed n v p op right := by
  induction p with
  | nil => intro n v; cases n <;> rfl
  | cons s rest ih => intro n v; unfold cmpN; simp only [ih]; rfl

theorem cmpM_repo (n : Node) (f : Form) (v : Val) (p : List Seg) (op : Op) (right : Seg) :
    cmpM GenCfg.repo n f v p op right = cmpM GenCfg.fixed n f v p op right := by
  have h : rootOfC GenCfg.repo f = rootOfC GenCfg.fixed f := rfl
  unfold cmpM; rw [h]; simp only [cmpN_repo]

/-- C04 for the emitter as it stands. -/
theorem cmp_current (n : Node) (v : Val) (p : List Seg) (op : Op) (right : Seg) (f : Form)
    (hf : rootOf f = .ok) (hroot : RootOK n = true) (hwf : NodeWF n = true) (hok : EmitOK n = true)
    (hwt : WT n v = true) :
    cmpAccepts n v p op right (cmpM GenCfg.repo n f v p op right) = true := by
  rw [cmpM_repo]; exact cmp_correct n v p op right f hf hroot hwf hok hwt

/-- A typed-nil root is refused by the emitter as it stands: result untouched, no panic. -/
theorem cmp_nil_root_current (n : Node) (v : Val) (p : List Seg) (op : Op) (right : Seg) (f : Form)
    (hf : rootOf f ≠ .ok) : cmpM GenCfg.repo n f v p op right = .untouched := by
  rw [cmpM_repo]; exact cmp_nil_root n v p op right f hf

end CurrentTree

end Inspector.C04
