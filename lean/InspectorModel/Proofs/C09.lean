/-
Proofs/C09.lean — the repaired loop-mode emitter model visits every element of the addressed collection
exactly once (property C09): helper definitions (how a model group is observed, the hypotheses on map
keys) and lemmas (iteration over elements / entries, navigation).
-/
import InspectorModel.Proofs.C01
import InspectorModel.Spec.LoopSpec
set_option linter.unusedSimpArgs false
set_option linter.unusedVariables false
namespace Inspector

/-! ### How a model group is observed -/

/-- A key text together with what the strconv oracle `o` says about it. The text is the model's by
construction; only the four parse results are taken from the oracle. -/
def segOf (o : Bytes → Seg) (t : Bytes) : Seg := { o t with text := t }

@[simp] theorem segOf_text (o : Bytes → Seg) (t : Bytes) : (segOf o t).text = t := rfl
@[simp] theorem segOf_pi (o : Bytes → Seg) (t : Bytes) : (segOf o t).pi = (o t).pi := rfl
@[simp] theorem segOf_pu (o : Bytes → Seg) (t : Bytes) : (segOf o t).pu = (o t).pu := rfl
@[simp] theorem segOf_pf (o : Bytes → Seg) (t : Bytes) : (segOf o t).pf = (o t).pf := rfl
@[simp] theorem segOf_pb (o : Bytes → Seg) (t : Bytes) : (segOf o t).pb = (o t).pb := rfl

/-- The observation a recording iterator makes of one model group — the mapping the driver uses when it
compares `modelGroupStr` with `showObsGroup`: same key text, inspector name, shape of the node, value. -/
def obsOf (o : Bytes → Seg) (g : LoopGroup) : ObsGroup :=
  { key := g.key.map (segOf o), ins := g.ins, shape := shapeOf g.node, val := g.val }

/-! ### Hypotheses on map keys -/

/-- strconv round trip for the text the emitted code renders for the scalar `w`:
`ParseBool(FormatBool b) = b`, `ParseInt(AppendInt i) = i`, `ParseUint(AppendUint n) = n`,
`ParseFloat(AppendFloat f) = f`. A fact about strconv, evaluated on the oracle annotations. -/
def oracleRT (o : Bytes → Seg) (ft : Val → Bytes) (w : Val) : Bool :=
  match w with
  | .bool b => (o (strBytes (if b then "true" else "false"))).pb == some b
  | .int i => (o (renderInt i)).pi == some i
  | .uint n => (o (renderNat n)).pu == some n
  | .float fx => (o (ft (.float fx))).pf == PF.ok fx
  | _ => true

/-- A float32-typed key value is a float32 (`WT` accepts every fixed-point number for both float kinds). -/
def f32Repr (k : Node) (w : Val) : Bool :=
  match kindOfName k.typu, w with
  | some (.float b), .float fx => !(b == 32) || roundF32 fx == fx
  | _, _ => true

/-- What the theorem needs of one map key whose text the iterator asks for (a nil pointer key meets the
last two trivially: the repaired emitter hands over an empty text for it, and the property accepts any):
* the key type is not `byte` (C14 class `byte-map-key`: such an inspector does not compile; the spec's
  `specKey` refuses to read a byte key text),
* the strconv oracle round-trips the rendered text,
* a float32 key is float32-representable. -/
def keyOK (o : Bytes → Seg) (ft : Val → Bytes) (k : Node) (key : Val) : Bool :=
  !(k.typn == "byte" || k.typu == "byte") && oracleRT o ft key.strip && f32Repr k key.strip

/-- `keyOK` at every position the iteration reaches and where the script asks for the key. -/
def entriesKeysOK (o : Bytes → Seg) (ft : Val → Bytes) (sc : LoopScript) (k : Node) : List Val → Nat → Bool
  | [], _ => true
  | key :: ks, i =>
    (!scriptAt sc.wantKey i false || keyOK o ft k key) &&
    (scriptAt sc.ctl i 0 == 1 || entriesKeysOK o ft sc k ks (i + 1))

/-- The key hypothesis of `loop_correct`, on the collection the path denotes (nothing to check unless
that is a map). -/
def LoopKeysOK (o : Bytes → Seg) (ft : Val → Bytes) (sc : LoopScript) (n : Node) (v : Val) (p : List Seg) : Bool :=
  match loopTarget n v p with
  | .coll (.map _ k _) (.map _ ks _) => entriesKeysOK o ft sc k ks 0
  | _ => true

/-! ### Small facts -/

theorem Val.beq_refl' (v : Val) : (v == v) = true := Val.beq_refl v

theorem String.beq_refl' (s : String) : (s == s) = true := by simp

/-- The group the model produces for element `x` of a collection with element node `e` is accepted for
that element, whatever key test `keyOk` the collection kind uses, provided the key (if wanted) passes it. -/
theorem groupMatches_obsOf (o : Bytes → Seg) (e : Node) (want : Bool) (keyOk : Seg → Bool) (x : Val) (t : Bytes)
    (hk : want = true → keyOk (segOf o t) = true) :
    groupMatches e want keyOk x
      (obsOf o { key := if want then some t else none, node := e, val := x, ins := elemInspector e }) = true := by
  unfold groupMatches obsOf
  cases want with
  | false => simp [Val.beq_refl']
  | true => simp [Val.beq_refl', hk rfl]

/-! ### Slices: every element once, in index order, keys "0".."n-1", stop after Break -/

theorem loopElems_length (sc : LoopScript) (e : Node) (es : List Val) : ∀ (i : Nat),
    (loopElems sc e es i).length + i = expectedCount.go sc (i + es.length) i es.length := by
  induction es with
  | nil => intro i; simp [loopElems, expectedCount.go]
  | cons x rest ih =>
    intro i
    unfold loopElems expectedCount.go
    have hlt : ¬ (i ≥ i + (x :: rest).length) := by simp
    simp only [List.length_cons] at hlt ⊢
    rw [if_neg hlt]
    by_cases hb : (scriptAt sc.ctl i 0 == 1) = true
    · simp only [hb, if_true, List.length_cons, List.length_nil]
      omega
    · simp only [hb, Bool.false_eq_true, if_false, List.length_cons]
      have := ih (i + 1)
      have e1 : i + 1 + rest.length = i + (rest.length + 1) := by omega
      rw [e1] at this
      omega

theorem loopElems_count (sc : LoopScript) (e : Node) (es : List Val) :
    (loopElems sc e es 0).length = expectedCount sc es.length := by
  have := loopElems_length sc e es 0
  simp only [Nat.add_zero, Nat.zero_add] at this
  exact this

theorem sliceGroupsOk_loopElems (o : Bytes → Seg) (sc : LoopScript) (e : Node) (es : List Val) : ∀ (i : Nat),
    sliceGroupsOk sc e es ((loopElems sc e es i).map (obsOf o)) i = true := by
  induction es with
  | nil => intro i; simp [loopElems, sliceGroupsOk]
  | cons x rest ih =>
    intro i
    unfold loopElems
    have hg := groupMatches_obsOf o e (scriptAt sc.wantKey i false) (fun s => s.text == renderNat i) x (renderNat i)
      (fun _ => by simp)
    by_cases hb : (scriptAt sc.ctl i 0 == 1) = true
    · simp only [hb, if_true, List.map_cons, List.map_nil, sliceGroupsOk, hg, Bool.true_and]
    · simp only [hb, Bool.false_eq_true, if_false, List.map_cons, sliceGroupsOk, hg, Bool.true_and]
      exact ih (i + 1)

/-! ### Map keys: the rendered text parses back to the key -/

theorem strip_of_nonptr (w : Val) (h1 : w ≠ .nilptr) (h2 : ∀ u, w ≠ .ptr u) : w.strip = w := by
  cases w <;> simp_all [Val.strip]

/-- A well-typed value of a non-pointer basic node is a scalar of the node's kind. -/
theorem WT_basic_scalar (i : Info) (w : Val) (hp : i.ptr = false) (h : WT (.basic i) w = true) :
    ∃ kd, kindOfName i.typu = some kd ∧ wtScalar kd w = true := by
  cases hk : kindOfName i.typu with
  | none => cases w <;> simp_all [WT, Node.ptr, Node.info]
  | some kd =>
    refine ⟨kd, rfl, ?_⟩
    cases w <;> simp_all [WT, Node.ptr, Node.info, wtScalar]

/-- Non-pointer key: the text rendered for it denotes the key. -/
theorem renderKey_parses_nonptr (nkp : Bool) (o : Bytes → Seg) (ft : Val → Bytes) (i : Info) (w : Val)
    (hp : i.ptr = false) (hwt : WT (.basic i) w = true)
    (hbyte : (i.typn == "byte" || i.typu == "byte") = false)
    (hrt : oracleRT o ft w = true) (hf : f32Repr (.basic i) w = true) :
    ∃ t, renderKey nkp (.basic i) w ft = some t ∧ specKey (.basic i) (segOf o t) = .key w := by
  obtain ⟨kd, hkd, hs⟩ := WT_basic_scalar i w hp hwt
  have hb1 : (i.typn == "byte") = false := by
    cases h : (i.typn == "byte") <;> simp_all
  have hb2 : (i.typu == "byte") = false := by
    cases h : (i.typu == "byte") <;> simp_all
  cases kd with
  | bool =>
    cases w <;> simp [wtScalar] at hs
    rename_i b
    refine ⟨strBytes (if b then "true" else "false"), by simp [renderKey, Node.ptr, Node.info, hp], ?_⟩
    unfold specKey
    simp only [oracleRT, beq_iff_eq] at hrt
    simp [Node.ptr, Node.info, Node.typu, Node.typn, hkd, hp, hrt]
  | sint bits =>
    cases w <;> simp [wtScalar] at hs
    rename_i x
    refine ⟨renderInt x, by simp [renderKey, Node.ptr, Node.info, hp], ?_⟩
    unfold specKey
    simp only [oracleRT, beq_iff_eq] at hrt
    simp [Node.ptr, Node.info, Node.typu, Node.typn, hkd, hp, hrt, hs]
  | uint bits =>
    cases w <;> simp [wtScalar] at hs
    rename_i x
    refine ⟨renderNat x, by simp [renderKey, Node.ptr, Node.info, hp], ?_⟩
    unfold specKey
    simp only [oracleRT, beq_iff_eq] at hrt
    simp [Node.ptr, Node.info, Node.typu, Node.typn, hkd, hp, hrt, hs, hb1, hb2]
  | float bits =>
    cases w <;> simp [wtScalar] at hs
    rename_i fx
    refine ⟨ft (.float fx), by simp [renderKey, Node.ptr, Node.info, hp], ?_⟩
    unfold specKey
    simp only [oracleRT, beq_iff_eq] at hrt
    simp only [f32Repr, Node.typu, Node.info, hkd] at hf
    by_cases h32 : (bits == 32) = true
    · simp only [h32, Bool.not_true, Bool.false_or, beq_iff_eq] at hf
      simp [Node.ptr, Node.info, Node.typu, Node.typn, hkd, hp, hrt, h32, hf]
    · simp [Node.ptr, Node.info, Node.typu, Node.typn, hkd, hp, hrt, h32]
  | string =>
    cases w <;> simp [wtScalar] at hs
    rename_i s
    refine ⟨s, by simp [renderKey, Node.ptr, Node.info, hp], ?_⟩
    unfold specKey
    simp [Node.ptr, Node.info, Node.typu, Node.typn, hkd, hp]

/-- The key test `mapGroupsOk` applies to the group standing for the entry stored under `key`: the text
parses back, by the property's reading of the key type, to that key; for a nil pointer key, which no text
denotes, any text passes. -/
def mapKeyOk (k : Node) (key : Val) (s : Seg) : Bool :=
  key.isNilPtr ||
  match specKey (k.withPtr false) s with
  | .key k' => k' == key.strip
  | _ => false

/-- Any key (pointer-typed or not, nil or not): the repaired key rendering does not panic and its text
passes the property's key test for the entry: it parses back, by the property's reading of the key type, to
the key the entry is stored under (nil pointer key: empty text, nothing to parse back). -/
theorem renderKey_parses (o : Bytes → Seg) (ft : Val → Bytes) (ki : Info) (key : Val)
    (hwt : WT (.basic ki) key = true) (hok : keyOK o ft (.basic ki) key = true) :
    ∃ t, renderKey false (.basic ki) key ft = some t ∧ mapKeyOk (.basic ki) key (segOf o t) = true := by
  unfold keyOK at hok
  simp only [Bool.and_eq_true, Bool.not_eq_true'] at hok
  obtain ⟨⟨hbyte, hrt⟩, hf⟩ := hok
  have fin : ∀ t, specKey ((Node.basic ki).withPtr false) (segOf o t) = .key key.strip →
      mapKeyOk (.basic ki) key (segOf o t) = true := by
    intro t hs
    unfold mapKeyOk
    simp only [hs, Val.beq_refl', Bool.or_true]
  rcases WT_ptr_cases _ _ hwt with ⟨hp, hv⟩ | ⟨hp, hn1, hn2⟩
  · have hp2 : ki.ptr = true := by simpa [Node.ptr, Node.info] using hp
    rcases hv with hv | ⟨w, hv, hw⟩
    · subst hv
      refine ⟨[], ?_, ?_⟩
      · simp [renderKey, Node.ptr, Node.info, hp2]
      · simp [mapKeyOk, Val.isNilPtr]
    · subst hv
      rw [withPtr_basic] at hw
      rcases WT_ptr_cases _ _ hw with ⟨hp', _⟩ | ⟨_, hn1, hn2⟩
      · simp [Node.ptr, Node.info] at hp'
      · have hst : (Val.ptr w).strip = w := by
          show w.strip = w
          exact strip_of_nonptr w hn1 hn2
        rw [hst] at hrt hf
        obtain ⟨t, ht, hk⟩ := renderKey_parses_nonptr false o ft { ki with ptr := false } w rfl hw
          (by simpa [Node.typn, Node.typu, Node.info] using hbyte) hrt
          (by simpa [f32Repr, Node.typu, Node.info] using hf)
        refine ⟨t, ?_, fin t ?_⟩
        · simp only [renderKey, Node.ptr, Node.info, hp2, if_true] at ht ⊢
          simpa using ht
        · rw [withPtr_basic, hst]; exact hk
  · have hp2 : ki.ptr = false := by simpa [Node.ptr, Node.info] using hp
    have hst : key.strip = key := strip_of_nonptr key hn1 hn2
    rw [hst] at hrt hf
    have hwp : (Node.basic ki).withPtr false = .basic ki := withPtr_false_of_not_ptr _ hp
    obtain ⟨t, ht, hk⟩ := renderKey_parses_nonptr false o ft ki key hp2 hwt
      (by simpa [Node.typn, Node.typu, Node.info] using hbyte) hrt hf
    exact ⟨t, ht, fin t (by rw [hwp, hst]; exact hk)⟩

/-! ### Maps: every entry once, stop after Break -/

theorem pick_head (k mv : Node) (g : ObsGroup) (want : Bool) (key x : Val) (ks vs : List Val)
    (h : groupMatches mv want (mapKeyOk k key) x g = true) :
    mapGroupsOk.pick k mv g want (key :: ks) (x :: vs) [] [] = some (ks, vs) := by
  have e : ∀ f : Seg → Bool, (∀ s, f s = mapKeyOk k key s) → groupMatches mv want f x g = true := by
    intro f hf
    have : f = mapKeyOk k key := funext hf
    rw [this]; exact h
  unfold mapGroupsOk.pick
  dsimp only
  split
  · simp only [List.reverse_nil, List.nil_append]
  · rename_i hneg
    exfalso
    apply hneg
    apply e
    intro s
    unfold mapKeyOk
    generalize specKey (k.withPtr false) s = r
    cases r <;> rfl

/-- The entry iteration of the emitted map loop: it ends normally, makes the expected number of
callbacks and each group stands for the entry at its position. -/
theorem loopEntries_correct (o : Bytes → Seg) (ft : Val → Bytes) (sc : LoopScript) (ki : Info) (mv : Node)
    (hwfk : NodeWF (.basic ki) = true) :
    ∀ (ks vs : List Val) (i : Nat), ks.length = vs.length → WTall (.basic ki) ks = true →
      entriesKeysOK o ft sc (.basic ki) ks i = true →
      (loopEntries false sc (.basic ki) mv ft ks vs i).fin = .done ∧
      (loopEntries false sc (.basic ki) mv ft ks vs i).groups.length + i = expectedCount.go sc (i + ks.length) i ks.length ∧
      mapGroupsOk sc (.basic ki) mv ks vs ((loopEntries false sc (.basic ki) mv ft ks vs i).groups.map (obsOf o)) i = true := by
  intro ks
  induction ks with
  | nil =>
    intro vs i _ _ _
    cases vs <;> simp [loopEntries, expectedCount.go, mapGroupsOk]
  | cons key ks' ih =>
    intro vs i hlen hwt hok
    cases vs with
    | nil => simp at hlen
    | cons x vs' =>
      simp only [List.length_cons, Nat.add_right_cancel_iff] at hlen
      simp only [WTall, Bool.and_eq_true] at hwt
      simp only [entriesKeysOK, Bool.and_eq_true, Bool.or_eq_true, Bool.not_eq_true'] at hok
      obtain ⟨hkey, hrest⟩ := hok
      -- the key text
      have hkt : ∃ t, (if scriptAt sc.wantKey i false then renderKey false (.basic ki) key ft else some []) = some t ∧
          (scriptAt sc.wantKey i false = true → mapKeyOk (.basic ki) key (segOf o t) = true) := by
        rcases hkey with hw | hk
        · exact ⟨[], by simp [hw], fun h => by simp [hw] at h⟩
        · obtain ⟨t, ht, hs⟩ := renderKey_parses o ft ki key hwt.1 hk
          by_cases hw : scriptAt sc.wantKey i false = true
          · exact ⟨t, by simp [hw, ht], fun _ => hs⟩
          · exact ⟨[], by simp [hw], fun h => absurd h hw⟩
      obtain ⟨t, ht, hkeyok⟩ := hkt
      have hg := groupMatches_obsOf o mv (scriptAt sc.wantKey i false) (mapKeyOk (.basic ki) key) x t hkeyok
      have hpick := pick_head (.basic ki) mv _ (scriptAt sc.wantKey i false) key x ks' vs' hg
      have hlt : ¬ (i ≥ i + (ks'.length + 1)) := by omega
      unfold loopEntries
      simp only [ht]
      unfold expectedCount.go
      simp only [List.length_cons]
      rw [if_neg hlt]
      by_cases hb : (scriptAt sc.ctl i 0 == 1) = true
      · simp only [hb, if_true, List.map_cons, List.map_nil, List.length_cons, List.length_nil, mapGroupsOk, hpick]
        refine ⟨trivial, by omega, trivial⟩
      · have hb' : (scriptAt sc.ctl i 0 == 1) = false := by simpa using hb
        have hrest' : entriesKeysOK o ft sc (.basic ki) ks' (i + 1) = true := by
          rcases hrest with h | h
          · rw [hb'] at h; cases h
          · exact h
        obtain ⟨h1, h2, h3⟩ := ih vs' (i + 1) hlen hwt.2 hrest'
        simp only [hb, Bool.false_eq_true, if_false, List.map_cons, List.length_cons, mapGroupsOk, hpick]
        refine ⟨h1, ?_, h3⟩
        have e1 : i + 1 + ks'.length = i + (ks'.length + 1) := by omega
        rw [e1] at h2
        omega

/-! ### Navigation -/

theorem derefIf_eq (b : Bool) (v : Val) :
    (if b then (match v with | .ptr w => w | w => w) else v) = derefIf b v := by
  unfold derefIf
  cases b <;> cases v <;> rfl

@[simp] theorem ptr_struct (i : Info) (c : List Node) : (Node.struct i c).ptr = i.ptr := rfl
@[simp] theorem ptr_map (i : Info) (k v : Node) : (Node.map i k v).ptr = i.ptr := rfl
@[simp] theorem ptr_slice (i : Info) (e : Node) : (Node.slice i e).ptr = i.ptr := rfl
@[simp] theorem ptr_basic (i : Info) : (Node.basic i).ptr = i.ptr := rfl

/-- The conclusion of the loop theorem at one node. -/
def LoopOK (o : Bytes → Seg) (ft : Val → Bytes) (sc : LoopScript) (n : Node) (v : Val) (p : List Seg) (r : LoopR) : Prop :=
  loopAccepts sc n v p (r.groups.map (obsOf o)) r.fin = true

theorem loopTarget_nil (n : Node) (v : Val) (p : List Seg) (h : (n.ptr && v.isNilPtr) = true) :
    loopTarget n v p = .nothing := by
  unfold loopTarget
  simp [h]

theorem loopAccepts_nothing (sc : LoopScript) (n : Node) (v : Val) (p : List Seg)
    (h : loopTarget n v p = .nothing) : loopAccepts sc n v p [] .done = true := by
  unfold loopAccepts
  rw [h]
  rfl

/-- A leaf (scalar, string, `[]byte`) denotes no collection. -/
theorem loopTarget_leaf (n : Node) (v : Val) (p : List Seg) (hl : n.isLeaf = true) : loopTarget n v p = .nothing := by
  unfold loopTarget
  cases n with
  | basic i => split <;> rfl
  | struct i c => simp at hl
  | map i k mv => simp at hl
  | slice i e =>
    simp only [isLeaf_slice] at hl
    simp only [hl, if_true]
    split <;> rfl

theorem loopAccepts_congr (sc : LoopScript) (n n' : Node) (v v' : Val) (p p' : List Seg) (gs : List ObsGroup)
    (fin : LoopEnd) (h : loopTarget n v p = loopTarget n' v' p') :
    loopAccepts sc n v p gs fin = loopAccepts sc n' v' p' gs fin := by
  unfold loopAccepts
  rw [h]

theorem LoopKeysOK_congr (o : Bytes → Seg) (ft : Val → Bytes) (sc : LoopScript) (n n' : Node) (v v' : Val)
    (p p' : List Seg) (h : loopTarget n v p = loopTarget n' v' p') :
    LoopKeysOK o ft sc n v p = LoopKeysOK o ft sc n' v' p' := by
  unfold LoopKeysOK
  rw [h]

theorem loopTarget_map (i : Info) (k mv : Node) (v : Val) (p : List Seg) (hnil : (i.ptr && v.isNilPtr) = false) :
    loopTarget (.map i k mv) v p = if p.isEmpty then .coll (.map i k mv) (derefIf i.ptr v) else .unspec := by
  unfold loopTarget derefIf
  simp only [ptr_map, hnil, Bool.false_eq_true, if_false]
  by_cases hp : i.ptr = true
  · simp only [hp, if_true]
    cases v <;> rfl
  · simp only [hp, Bool.false_eq_true, if_false]

theorem loopTarget_slice (i : Info) (e : Node) (v : Val) (p : List Seg) (hnil : (i.ptr && v.isNilPtr) = false)
    (hb : (i.typn == "[]byte") = false) :
    loopTarget (.slice i e) v p = if p.isEmpty then .coll (.slice i e) (derefIf i.ptr v) else .unspec := by
  unfold loopTarget derefIf
  simp only [ptr_slice, hnil, hb, Bool.false_eq_true, if_false]
  by_cases hp : i.ptr = true
  · simp only [hp, if_true]
    cases v <;> rfl
  · simp only [hp, Bool.false_eq_true, if_false]

theorem loopTarget_struct (i : Info) (chld : List Node) (v : Val) (s : Seg) (rest : List Seg)
    (hnil : (i.ptr && v.isNilPtr) = false) :
    loopTarget (.struct i chld) v (s :: rest) =
      match derefIf i.ptr v with
      | .struct fs =>
        (match findField chld fs s.text with
         | some (ch, fv) => loopTarget ch fv rest
         | none => .nothing)
      | _ => .nothing := by
  conv => lhs; unfold loopTarget
  unfold derefIf
  simp only [ptr_struct, hnil, Bool.false_eq_true, if_false]
  by_cases hp : i.ptr = true
  · simp only [hp, if_true]
    cases v <;> rfl
  · simp only [hp, Bool.false_eq_true, if_false]
    cases v <;> rfl

theorem loopTarget_struct_none (i : Info) (chld : List Node) (v : Val) (s : Seg) (rest : List Seg) (fs : List Val)
    (hnil : (i.ptr && v.isNilPtr) = false) (hfs : derefIf i.ptr v = .struct fs)
    (hff : findField chld fs s.text = none) :
    loopTarget (.struct i chld) v (s :: rest) = .nothing := by
  rw [loopTarget_struct i chld v s rest hnil]
  simp only [hfs, hff]

theorem loopTarget_struct_some (i : Info) (chld : List Node) (v : Val) (s : Seg) (rest : List Seg) (fs : List Val)
    (ch : Node) (fv : Val)
    (hnil : (i.ptr && v.isNilPtr) = false) (hfs : derefIf i.ptr v = .struct fs)
    (hff : findField chld fs s.text = some (ch, fv)) :
    loopTarget (.struct i chld) v (s :: rest) = loopTarget ch fv rest := by
  rw [loopTarget_struct i chld v s rest hnil]
  simp only [hfs, hff]

/-- A map node: whatever remains of the path, the emitted code loops the map. -/
theorem loopN_map_correct (o : Bytes → Seg) (ft : Val → Bytes) (sc : LoopScript) (i : Info) (k mv : Node)
    (v : Val) (p : List Seg) (hwf : NodeWF (.map i k mv) = true) (hwt : WT (.map i k mv) v = true)
    (hk : LoopKeysOK o ft sc (.map i k mv) v p = true) :
    LoopOK o ft sc (.map i k mv) v p (loopN GenCfg.fixed sc ft (.map i k mv) v p) := by
  unfold LoopOK
  by_cases hnil : (i.ptr && v.isNilPtr) = true
  · simp only [loopN, hnil, if_true, List.map_nil]
    exact loopAccepts_nothing sc _ v p (loopTarget_nil _ _ _ (by simpa using hnil))
  · have hnil' : (i.ptr && v.isNilPtr) = false := by simpa using hnil
    have hw := WT_deref _ _ hwt (by simpa using hnil')
    rw [withPtr_map] at hw
    obtain ⟨nl, ks, vs, hm, hlen, hwtk, _⟩ := WT_map_inv { i with ptr := false } k mv _ rfl hw
    simp only [ptr_map] at hm
    simp only [NodeWF, Bool.and_eq_true] at hwf
    obtain ⟨⟨hkb, hwfk⟩, _⟩ := hwf
    have ht := loopTarget_map i k mv v p hnil'
    unfold loopAccepts
    unfold LoopKeysOK at hk
    rw [ht] at hk ⊢
    cases p with
    | cons s rest => rfl
    | nil =>
      simp only [List.isEmpty_nil, if_true, hm] at hk ⊢
      simp only [loopN, hnil', Bool.false_eq_true, if_false, hm]
      cases k with
      | basic ki =>
        obtain ⟨h1, h2, h3⟩ := loopEntries_correct o ft sc ki mv hwfk ks vs 0 hlen hwtk hk
        simp only [Nat.add_zero, Nat.zero_add] at h2
        have hcfg : GenCfg.fixed.loopNilKeyPanics = false := rfl
        simp only [hcfg, h1, List.length_map, h2, h3, expectedCount]
        simp
      | _ => simp [Node.isBasicTyp] at hkb

/-- A slice node. -/
theorem loopN_slice_correct (o : Bytes → Seg) (ft : Val → Bytes) (sc : LoopScript) (i : Info) (e : Node)
    (v : Val) (p : List Seg) (hwt : WT (.slice i e) v = true) :
    LoopOK o ft sc (.slice i e) v p (loopN GenCfg.fixed sc ft (.slice i e) v p) := by
  unfold LoopOK
  by_cases hb : (i.typn == "[]byte") = true
  · simp only [loopN, hb, if_true, List.map_nil]
    exact loopAccepts_nothing sc _ v p (loopTarget_leaf _ _ _ (by simpa using hb))
  have hb' : (i.typn == "[]byte") = false := by simpa using hb
  by_cases hnil : (i.ptr && v.isNilPtr) = true
  · simp only [loopN, hb', hnil, if_true, Bool.false_eq_true, if_false, List.map_nil]
    exact loopAccepts_nothing sc _ v p (loopTarget_nil _ _ _ (by simpa using hnil))
  · have hnil' : (i.ptr && v.isNilPtr) = false := by simpa using hnil
    have hw := WT_deref _ _ hwt (by simpa using hnil')
    rw [withPtr_slice] at hw
    obtain ⟨nl, es, c, hes, _⟩ := WT_slice_inv { i with ptr := false } e _ rfl hb' hw
    simp only [ptr_slice] at hes
    have ht := loopTarget_slice i e v p hnil' hb'
    unfold loopAccepts
    rw [ht]
    cases p with
    | cons s rest => rfl
    | nil =>
      simp only [List.isEmpty_nil, if_true, hes]
      simp only [loopN, hnil', hb', Bool.false_eq_true, if_false, hes]
      simp only [List.length_map, loopElems_count, sliceGroupsOk_loopElems]
      simp

/-- Main navigation lemma: at every node reached along the path, what the repaired loop-mode code hands
to the iterator is what the property demands for the collection the path denotes. -/
theorem loopN_correct (o : Bytes → Seg) (ft : Val → Bytes) (sc : LoopScript) (p : List Seg) :
    ∀ (n : Node) (v : Val), NodeWF n = true → WT n v = true → LoopKeysOK o ft sc n v p = true →
      LoopOK o ft sc n v p (loopN GenCfg.fixed sc ft n v p) := by
  induction p with
  | nil =>
    intro n v hwf hwt hk
    cases n with
    | basic i =>
      unfold LoopOK
      simp only [loopN, List.map_nil]
      exact loopAccepts_nothing sc _ v [] (loopTarget_leaf _ _ _ rfl)
    | map i k mv => exact loopN_map_correct o ft sc i k mv v [] hwf hwt hk
    | slice i e => exact loopN_slice_correct o ft sc i e v [] hwt
    | struct i chld =>
      unfold LoopOK
      simp only [loopN, List.map_nil]
      exact loopAccepts_nothing sc _ v [] (by unfold loopTarget; split <;> rfl)
  | cons s rest ih =>
    intro n v hwf hwt hk
    cases n with
    | basic i =>
      unfold LoopOK
      simp only [loopN, List.map_nil]
      exact loopAccepts_nothing sc _ v _ (loopTarget_leaf _ _ _ rfl)
    | map i k mv => exact loopN_map_correct o ft sc i k mv v _ hwf hwt hk
    | slice i e => exact loopN_slice_correct o ft sc i e v _ hwt
    | struct i chld =>
      unfold LoopOK
      by_cases hnil : (i.ptr && v.isNilPtr) = true
      · simp only [loopN, hnil, if_true, List.map_nil]
        exact loopAccepts_nothing sc _ v _ (loopTarget_nil _ _ _ (by simpa using hnil))
      · have hnil' : (i.ptr && v.isNilPtr) = false := by simpa using hnil
        have hw := WT_deref _ _ hwt (by simpa using hnil')
        rw [withPtr_struct] at hw
        obtain ⟨fs, hfs, hwts⟩ := WT_struct_inv _ _ _ rfl hw
        simp only [ptr_struct] at hfs
        simp only [loopN, hnil', Bool.false_eq_true, if_false, hfs]
        cases hff : findField chld fs s.text with
        | none =>
          simp only [List.map_nil]
          exact loopAccepts_nothing sc _ v _ (loopTarget_struct_none i chld v s rest fs hnil' hfs hff)
        | some cf =>
          obtain ⟨ch, fv⟩ := cf
          obtain ⟨hwtc, hmem⟩ := findField_WT _ _ _ _ _ hwts hff
          have hwfc : NodeWF ch = true := NodeWFs_mem _ _ (by simpa [NodeWF] using hwf) hmem
          have ht := loopTarget_struct_some i chld v s rest fs ch fv hnil' hfs hff
          simp only []
          by_cases hl : ch.isLeaf = true
          · simp only [hl, if_true, List.map_nil]
            rw [loopAccepts_congr sc _ ch v fv _ rest _ _ ht]
            exact loopAccepts_nothing sc ch fv rest (loopTarget_leaf _ _ _ hl)
          · simp only [hl, Bool.false_eq_true, if_false]
            rw [loopAccepts_congr sc _ ch v fv _ rest _ _ ht]
            rw [LoopKeysOK_congr o ft sc _ ch v fv _ rest ht] at hk
            exact ih ch fv hwfc hwtc hk

end Inspector
