package corr

func init() {
	Runners["C09"] = runC09
}

func runC09(p *Plan) {
	r := NewRng(p.Seed)
	nRandom := scale(p.Tier, 3, 10)
	perValue := scale(p.Tier, 40, 150)
	for _, e := range p.Types {
		tr := r.Fork(hashStr(e.Name))
		for _, vc := range valuesFor(p, e, tr, nRandom) {
			ps := EnumPaths(tr, vc.v, perValue)
			for i, path := range ps.Paths {
				f := readForms[0]
				if tr.Chance(1, 4) {
					f = readForms[1+tr.Intn(2)]
				}
				// key wanted or not (constant over one run: the order of maps is free); Break / Continue at every position
				want := []bool{tr.Bool()}
				var ctl []int
				n := tr.Intn(5)
				for j := 0; j < n; j++ {
					ctl = append(ctl, []int{0, 0, 2, 2, 1}[tr.Intn(5)])
				}
				ctl = append(ctl, []int{0, 2}[tr.Intn(2)])
				if tr.Chance(1, 3) {
					ctl[len(ctl)-1] = 0
				}
				OpLoop(p.Out, e, vc.v, f, path, want, ctl, false)
				p.Out.Count("path:" + ps.Kinds[i])
			}
		}
	}
}
